"""C10 - state-changing operations are serialized; the slot is always freed."""
import copy
import random

from .base import Prop
from ..lifecycle import Episode
from ..snapshot import snapshot, diff
from .. import gen

EXCLUSIVE = ('start', 'stop', 'restart', 'reload', 'incr', 'decr', 'set',
             'add', 'rm', 'reloadconfig', 'quit')


class C10Episode(Episode):
    def setup(self):
        super().setup()
        w = self.world
        w.snapshot_fn = snapshot
        self.on_quiet.append(C10Episode.judge)
        self.judged = set()
        # an operation is in progress for as long as it holds the slot: a
        # worker is only ever created by an operation that still holds it
        # (a reply or a freed slot while the operation goes on in the
        # background lets the next request run beside it)
        w.kernel.on_spawn = self.on_spawn
        w.kernel.on_signal = self.on_signal

    def on_signal(self, entry, p):
        """a worker is only ever terminated by an operation that holds the
        slot - or by a kill request, the one command outside it"""
        w = self.world
        a = w.arbiter
        if a is None or w.start_future is None or \
                not w.start_future.done() or w.daemon_gone():
            return
        if 'kill_process' not in (entry.get('sender') or []) or \
                entry.get('effect') in ('probe',):
            return
        if a._exclusive_running_command is not None or a._stopping:
            return
        now = w.sim.now
        for q in w.reqs:
            if q.cmd == 'kill' and q.dispatched and q.disp_t is not None \
                    and q.accepted is not False and now - q.disp_t <= 35.0:
                return          # may be that kill request's doing
        for c in w.hook_calls:
            if c[3] == 'after_spawn' and c[4] != 'true' and \
                    (c[5] or {}).get('pid') == entry['pid']:
                # a worker its after_spawn hook rejected: spawn_process (no
                # coroutine) leaves its termination to the background
                self.probes['rejected_worker_killed_in_background'] += 1
                return
        self.viol('termination_outside_any_operation',
                  'signal %s sent to worker %s by kill_process while no '
                  'state-changing operation held the slot and no kill '
                  'request was under way' % (entry['sig'], entry['pid']),
                  once='sig_free')

    def on_spawn(self, p):
        w = self.world
        a = w.arbiter
        if a is None or w.start_future is None or \
                not w.start_future.done():
            return
        if a._exclusive_running_command is None:
            self.viol('spawn_outside_any_operation',
                      'worker %d of %s was created while no state-changing '
                      'operation held the slot (created from %s)'
                      % (p.pid, p.marker, w.kernel.sender()[:6]),
                      once='spawn_free', via=(w.kernel.sender() + ['?'] * 5)[4])

    def in_progress_at(self, b):
        """accepted waiting exclusive requests without reply when b was
        dispatched"""
        out = []
        for a in self.world.reqs:
            if a is b or a.cmd not in EXCLUSIVE or not a.dispatched \
                    or a.dispatched == 'lost':
                continue
            if not (a.waiting and a.accepted and not a.cast):
                continue
            if a.disp_seq is None or b.disp_seq is None or \
                    a.disp_seq > b.disp_seq:
                continue
            if a.done_seq is not None and a.done_seq < b.disp_seq:
                continue
            out.append(a)
        return out

    def judge(self):
        w = self.world
        k = w.kernel
        # once a quit has been accepted the daemon is shutting down: replies
        # may be lost at close (C06/C08); requests after it are not judged
        qs = [q.disp_seq for q in w.reqs if q.cmd == 'quit' and q.accepted
              and q.disp_seq is not None]
        quit_seq = min(qs) if qs else None
        for b in w.reqs:
            if quit_seq is not None and b.disp_seq is not None and \
                    b.disp_seq > quit_seq:
                continue
            if b.idx in self.judged or not b.dispatched or \
                    b.dispatched == 'lost' or b.cast:
                continue
            if b.cmd not in EXCLUSIVE:
                continue
            self.judged.add(b.idx)
            o = b.sync_replies[0][5] if b.sync_replies else None
            refused = isinstance(o, dict) and o.get('status') == 'error'
            ahead = self.in_progress_at(b)
            if refused:
                # a refused request has no effect
                if b.snap_before is not None and b.snap_after is not None:
                    d = diff(b.snap_before, b.snap_after)
                    if d:
                        self.viol('refused_request_had_effect',
                                  '%s answered %r but changed the daemon: %s'
                                  % (b.cmd, o.get('reason'), '; '.join(d[:4])),
                                  once=b.idx, cmd=b.cmd,
                                  what=d[0].split(':')[0].split('.')[-1])
                if ahead:
                    self.probes['refused_while_in_flight'] += 1
                    if o.get('errno') == 5 and 'already running' in \
                            str(o.get('reason')):
                        self.probes['conflict_error'] += 1
                elif o.get('errno') == 5 and 'already running' in \
                        str(o.get('reason')):
                    self.probes['conflict_without_waiting_request'] += 1
                continue
            if not ahead:
                continue
            if b.sync_replies and b.snap_before is not None and \
                    not diff(b.snap_before, b.snap_after):
                # answered ok at once without touching anything (incr/decr on
                # a singleton): no state-changing operation took place
                self.probes['noop_ok_while_in_flight'] += 1
                continue
            # b was accepted although a waiting exclusive request a has not
            # been answered yet: legitimate only in a's last instant (future
            # done, slot free, reply frame not yet written)
            for a in ahead:
                # measured in loop steps, not time: B's own synchronous work
                # (spawn cost, step cost) may advance the clock meanwhile
                # legitimate: a's future was done when b was dispatched, its
                # reply callbacks were already queued. then the loop never
                # had to wait for a timer between b's dispatch and a's reply
                last_steps = a.done_jumps is not None and \
                    a.done_jumps == b.disp_jumps
                if not a.replies and a.cmd == 'quit' and w.daemon_gone():
                    # with a caller-provided loop the controller is closed
                    # before the waiting reply can be written (see C06)
                    self.probes['quit_reply_lost_at_close'] += 1
                elif not a.replies:
                    self.viol('overlap_accepted',
                              '%s accepted while waiting %s (dispatched '
                              'earlier) was never answered' % (b.cmd, a.cmd),
                              once=(a.idx, b.idx))
                elif not last_steps or b.excl_before is not None:
                    self.viol('overlap_accepted',
                              '%s accepted at step %d while %s was in progress '
                              '(answered at step %d, slot before dispatch %r)'
                              % (b.cmd, b.disp_step, a.cmd, a.done_step,
                                 b.excl_before),
                              once=(a.idx, b.idx))
                else:
                    self.probes['accepted_in_last_instant_of_a'] += 1

    def attributed(self, p, a, b):
        return False

    def finish(self):
        super().finish()
        w = self.world
        if self.aborted == 'no_quiescence' and w is not None and \
                not w.daemon_gone():
            a = w.arbiter
            slot = a._exclusive_running_command
            if slot is not None and slot != 'manage_watchers':
                # faults have stopped, half an hour of virtual time has
                # passed, and the same operation still holds the slot
                self.aborted = None
                self.viol('slot_never_freed',
                          'the operation %r still holds the slot %.0f virtual '
                          'seconds after the last request (no fault pending)'
                          % (slot, self.cfg.get('final_max_dt', 1800.0)),
                          once='slot', slot=str(slot))

    def final(self):
        self.judge()
        w = self.world
        # the slot is free again: a harmless state-changing probe is accepted
        for wt in list(w.arbiter.watchers)[:2]:
            r = w.call('set', {'name': wt.name,
                               'options': {'warmup_delay': wt.warmup_delay}},
                       waiting=True)
            self.probes['probe_sent'] += 1
            o = r.reply
            if not isinstance(o, dict) or o.get('status') != 'ok':
                self.viol('wedged_after_history',
                          'no request in flight, yet the probe set request is '
                          'answered %r (slot=%r, restarting=%r)'
                          % (o, w.arbiter._exclusive_running_command,
                             w.arbiter._restarting), once='probe',
                          slot=w.arbiter._exclusive_running_command)
                break


class C10(Prop):
    id = 'C10'
    level = 'exploration'
    rule = ('one case = request A (start/stop/restart/reload/incr/decr/set/rm'
            '/quit/add, or - 15 % of the cases, on a daemon built from a real '
            'configuration file - reloadconfig after an edit of the file; '
            'in 12 % a start that fills up an active respawn-off watcher '
            'which lost workers; '
            'waiting; succeeding, failing synchronously, or failing '
            'asynchronously through hook exceptions / exec failures) and '
            'state-changing requests B, C ... delivered after a seeded number '
            'of loop steps / kernel calls of A\'s progress, plus worker deaths; '
            'systematic part: B at every step of A for seeded (A, B) pairs. '
            'checked: B refused while A is in progress with an unchanged '
            'daemon snapshot; an accepted B only in A\'s last instant; a probe '
            'request is accepted after the history. non-trivial = a request '
            'or fault fired while an operation was in flight; distinct = '
            '(event kind, abstract daemon state) sequence hash')
    chunk = 100
    enum_hard_budget = {'quick': 60, 'thorough': 3000}
    A_KINDS = ['start', 'stop', 'restart', 'reload', 'incr', 'decr', 'set',
               'rm', 'quit', 'add']
    A_W = [3, 3, 3, 3, 2, 2, 2, 0.5, 0.3, 1.5]
    B_KINDS = ['start', 'stop', 'restart', 'reload', 'incr', 'decr', 'set',
               'rm', 'add']

    @staticmethod
    def make_glob(rng, op):
        """start / stop / restart addressed to several watchers at once by a
        pattern (the arbiter-level operations)"""
        if op['cmd'] in ('start', 'stop', 'restart') and rng.random() < 0.2:
            op['w'] = None
            op.pop('case', None)
            op['props'] = {'name': rng.choice(['w*', 'w*', 'W*', 'w[0-9]',
                                               '*']),
                           'match': 'glob'}
        return op

    @staticmethod
    def make_add(rng, op):
        """add a new watcher (started at once, with a warm-up so that the
        operation stays in flight for a while)"""
        k = rng.randrange(1000)
        op['w'] = None
        op.pop('case', None)
        op['props'] = {'name': 'added%d' % k,
                       'cmd': 'worker --marker=added%d' % k,
                       'start': rng.random() < 0.8,
                       'options': {'numprocesses': rng.choice([1, 2, 3]),
                                   'warmup_delay': rng.choice([0, 0.3, 1.0])}}
        return op

    def gen_cfg(self, rng, seed):
        cfg = gen.gen_base_cfg(rng, seed, nwatch=(1, 2, 2, 3),
                               max_age_p=0.12,
                               kinds=('obedient', 'slow', 'stubborn',
                                      'selfexit'))
        for wc in cfg['watchers']:
            if rng.random() < 0.3:
                wc['hooks'] = gen.gen_hooks(rng, bad_p=0.6)
        if rng.random() < 0.25:
            s = rng.randrange(1, 12)
            cfg['exec_fail'] = {str(s + i): 2 for i in range(rng.choice(
                [1, 2, 6]))}
        if rng.random() < 0.1:
            # an operation that ends with an error in the middle of its
            # work: signalling a worker fails with EPERM (a worker that
            # changed its credentials). Whatever state that leaves, the slot
            # is freed and later requests are accepted and end
            s = rng.randrange(1, 8)
            cfg['signal_fail'] = {str(s + i): 1 for i in range(rng.choice(
                [1, 1, 2]))}
            for wc in cfg['watchers']:
                wc['opts'].pop('max_age', None)
                wc['opts'].pop('max_age_variance', None)
        return cfg

    def gen_ini_case(self, rng, seed):
        """reloadconfig as the operation in flight (after an edit of the
        file that makes it spawn / kill with warm-up and grace periods) and
        as the request that arrives during another operation"""
        cfg = gen.gen_base_cfg(rng, seed, nwatch=(1, 2, 3), singleton_p=0.0,
                               kinds=('obedient', 'slow', 'stubborn'),
                               warmup=[0, 1, 2], numproc=(1, 2, 3))
        # (configuration files take integer warm-up delays only)
        cfg['warmup_delay'] = int(cfg.get('warmup_delay', 0))
        cfg['from_ini'] = True
        nw = len(cfg['watchers'])
        ops = []
        for _ in range(rng.choice([1, 2, 3])):
            if rng.random() < 0.6:
                w = rng.randrange(nw)
                edit = {'op': 'editini', 'w': w, 'place': 'now'}
                if rng.random() < 0.6:
                    edit['np'] = rng.choice([1, 2, 3, 4, 5])
                else:
                    edit['env'] = {'X': str(rng.randrange(100))}
                ops.append(edit)
                a = {'op': 'req', 'cmd': 'reloadconfig', 'w': None,
                     'props': {}, 'waiting': True, 'place': 'now'}
            else:
                a = gen.gen_request(rng, nw, rng.choices(
                    self.A_KINDS[:7], self.A_W[:7])[0], waiting=True)
            ops.append(a)
            for _k in range(rng.choice([1, 2, 3])):
                if rng.random() < 0.5:
                    b = {'op': 'req', 'cmd': 'reloadconfig', 'w': None,
                         'props': {}, 'waiting': rng.random() < 0.5,
                         'place': gen.gen_place(rng, True)}
                    if rng.random() < 0.5:
                        ops.append({'op': 'editini', 'w': rng.randrange(nw),
                                    'np': rng.choice([1, 2, 4]),
                                    'place': 'now'})
                else:
                    b = gen.gen_request(rng, nw, rng.choice(self.B_KINDS[:8]),
                                        waiting=rng.random() < 0.5,
                                        place=gen.gen_place(rng, True))
                ops.append(b)
            ops.append(rng.choice([{'op': 'quiet', 'checks': 0},
                                   {'op': 'wait', 'kind': 'replies'}]))
        return {'cfg': cfg, 'ops': ops}

    def gen(self, rng, tier, seed):
        if rng.random() < 0.15:
            return self.gen_ini_case(rng, seed)
        cfg = self.gen_cfg(rng, seed)
        nw = len(cfg['watchers'])
        ops = []
        topup = None
        if rng.random() < 0.12:
            # a start that only fills up an active watcher (respawn off,
            # workers lost): it is an operation like any other while it
            # spawns, warm-up pauses included
            topup = rng.randrange(nw)
            o = cfg['watchers'][topup]['opts']
            o['respawn'] = False
            o['numprocesses'] = rng.choice([3, 4])
            o['warmup_delay'] = rng.choice([0.3, 1.7])
            o.pop('singleton', None)
            o.pop('max_age', None)
            ops.extend([{'op': 'die', 'w': topup, 'j': 0, 'how': 'kill',
                         'place': 'now'},
                        {'op': 'die', 'w': topup, 'j': 1, 'how': 'kill',
                         'place': 'now'},
                        {'op': 'quiet', 'checks': 1}])
        for it in range(rng.choice([1, 2, 3, 4])):
            a = gen.gen_request(rng, nw, rng.choices(self.A_KINDS,
                                                     self.A_W)[0],
                                waiting=True)
            if topup is not None and it == 0:
                a = {'op': 'req', 'cmd': 'start', 'w': topup, 'props': {},
                     'waiting': True, 'place': 'now'}
            if a['cmd'] == 'set' and rng.random() < 0.3:
                a['props']['options'] = {'uid': 'no-such-user-xyz'}
            if a['cmd'] == 'add':
                self.make_add(rng, a)
            self.make_glob(rng, a)
            ops.append(a)
            for _k in range(rng.choice([1, 1, 2, 3])):
                y = rng.random()
                if y < 0.75:
                    b = gen.gen_request(rng, nw, rng.choice(self.B_KINDS),
                                        waiting=rng.random() < 0.5,
                                        place=gen.gen_place(rng, True))
                    if rng.random() < 0.6 and a['w'] is not None:
                        b['w'] = a['w']
                    if b['cmd'] == 'add':
                        self.make_add(rng, b)
                    self.make_glob(rng, b)
                    ops.append(b)
                else:
                    ops.append(gen.gen_death(rng, nw, inflight=True))
            ops.append(rng.choice([{'op': 'quiet', 'checks': 0},
                                   {'op': 'wait', 'kind': 'replies'},
                                   {'op': 'wait', 'kind': 'steps', 'n': 3}]))
        if cfg.get('signal_fail'):
            # (not into a shutdown: a quit that cannot signal a worker has no
            # good way to end, and the statement does not say which)
            for op in ops:
                if op['op'] == 'req' and op['cmd'] == 'quit':
                    op['cmd'] = 'stop'
        return {'cfg': cfg, 'ops': ops}

    def enum_cases(self, tier, master):
        nb = 4 if tier == 'quick' else 150
        return [{'sweep_base': i, 'master': master} for i in range(nb)]

    def run(self, case):
        if 'sweep_base' in case:
            return self.run_sweep(case)
        ep = C10Episode(case)
        ep.run()
        return self.result(ep)

    def run_sweep(self, case):
        i, master = case['sweep_base'], case['master']
        rng = random.Random('c10-sweep/%d/%d' % (master, i))
        seed = (master * 1000003 + i) & 0xffffffffffff
        cfg = self.gen_cfg(rng, seed)
        nw = len(cfg['watchers'])
        a = gen.gen_request(rng, nw, rng.choice(self.A_KINDS[:7]),
                            waiting=True)
        a['w'] = 0
        a.pop('case', None)
        base = {'cfg': cfg, 'ops': [a, {'op': 'quiet', 'checks': 0}]}
        ep = C10Episode(base)
        ep.run()
        res = self.result(ep, nontrivial=False)
        res['multi'] = multi = []
        r = ep.op_reqs.get(0)
        if r is None or not r.replies or r.disp_step is None:
            return res
        nsteps = max(1, r.replies[0][2] - r.sent_step)
        for s in range(1, min(nsteps, 80) + 2):
            bk = self.B_KINDS[(s + i) % len(self.B_KINDS)]
            b = gen.gen_request(random.Random('%d/%d/%d' % (master, i, s)),
                                nw, bk, waiting=bool(s % 2),
                                place={'steps': s})
            b['w'] = 0 if s % 3 else b['w']
            if bk == 'add':
                self.make_add(random.Random('%d/%d/%d/a' % (master, i, s)), b)
            c = copy.deepcopy(base)
            c['ops'].insert(1, b)
            e2 = C10Episode(c)
            e2.run()
            rr = self.result(e2, nontrivial=True)
            for v in rr['violations']:
                v['case'] = c
            multi.append(rr)
        return res


PROP = C10()
