"""Property registry."""
import importlib

IDS = ['C01', 'C02', 'C03', 'C04', 'C05', 'C06', 'C07', 'C08', 'C09', 'C10',
       'C11', 'C12', 'C13', 'C14', 'C15', 'C17', 'C18', 'C19', 'C20']
_cache = {}


def get(prop_id):
    if prop_id not in _cache:
        mod = importlib.import_module('circus_sim.props.%s' % prop_id.lower())
        _cache[prop_id] = mod.PROP
    return _cache[prop_id]
