"""AsyncCircusClient loses a reply that arrives right behind another frame.
A ROUTER answers each request with a stale reply followed immediately by the
real one (what a client sees after an earlier call of its own timed out)."""
import json, sys, threading, time
import zmq
import tornado.ioloop, tornado.gen
from circus.client import AsyncCircusClient
from circus.exc import CallError

ctx = zmq.Context()
router = ctx.socket(zmq.ROUTER)
port = router.bind_to_random_port('tcp://127.0.0.1')

def serve():
    ident, msg = router.recv_multipart()
    req = json.loads(msg)
    router.send_multipart([ident, json.dumps({'id': 'stale', 'status': 'ok'}).encode()])
    router.send_multipart([ident, json.dumps({'id': req['id'], 'status': 'ok', 'mine': True}).encode()])

threading.Thread(target=serve, daemon=True).start()

@tornado.gen.coroutine
def main():
    cl = AsyncCircusClient(context=ctx, endpoint='tcp://127.0.0.1:%d' % port, timeout=2.0)
    try:
        res = yield tornado.gen.with_timeout(time.time() + 5, cl.call({'command': 'list'}))
        print('reply', res)
        return 0
    except (CallError, tornado.gen.TimeoutError) as e:
        print('LOST: own reply was delivered, call failed with %r' % (e,))
        return 1

rc = tornado.ioloop.IOLoop.current().run_sync(main)
sys.exit(rc)
