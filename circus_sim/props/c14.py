"""C14 - hooks gate exactly the transitions they are documented to gate."""
import itertools
import random

from .base import Prop
from ..lifecycle import Episode
from .. import gen

OUTCOMES = ('true', 'false', 'raise')
START_HOOKS = ('before_start', 'before_spawn', 'after_spawn', 'after_start')
DEFAULT_IGNORED = ('before_stop', 'after_stop', 'before_signal',
                   'after_signal')


def effective(outcome, flag, name=None):
    if outcome == 'true':
        return True
    if outcome == 'raise_bare':
        outcome = 'raise'
    if outcome in ('false', 'none'):
        # (no verdict is not "true": the flag is about exceptions)
        return False
    return bool(flag) or name in DEFAULT_IGNORED      # raise -> flag


class C14Episode(Episode):
    """case['c14'] = {'kind': 'start'|'stop'|'signal'|'random', ...}"""

    def hook_events(self):
        n_ok = n_fail = 0
        for (seq, t, topic, obj) in self.world.ctx.events:
            if topic.endswith('.hook_success'):
                n_ok += 1
            elif topic.endswith('.hook_failure'):
                n_fail += 1
        return n_ok, n_fail

    def check_events(self):
        calls = self.world.hook_calls
        raised = sum(1 for c in calls if c[4] in ('raise', 'raise_bare'))
        n_ok, n_fail = self.hook_events()
        if n_ok + n_fail != len(calls) or n_fail != raised:
            self.viol('hook_event_count',
                      '%d hook calls (%d raised) but %d hook_success and %d '
                      'hook_failure events' % (len(calls), raised, n_ok,
                                               n_fail), once='ev')

    def started(self):
        c = self.case['c14']
        if c['kind'] == 'start':
            self.run_start(c)
        elif c['kind'] == 'stop':
            self.run_stop(c)
        elif c['kind'] == 'signal':
            self.run_signal(c)
        elif c['kind'] == 'pair':
            self.run_pair(c)

    # ---------------------------------------------------------------- pair
    def run_pair(self, c):
        """two watchers of one daemon with the same hook and different
        ignore-failure flags: each one's flag is its own"""
        w = self.world
        for wc in self.cfg['watchers']:
            w.call('start', {'name': wc['name']}, waiting=True)
        ok = w.settle(extra_checks=1)
        if self.stopped() or not ok:
            return
        k = w.kernel
        for i, wc in enumerate(self.cfg['watchers']):
            (hook, (o, f)), = c['pair'][i].items()
            good = effective(o, f, hook)
            st = self.ask('status', {'name': wc['name']})
            status = st.get('status') if isinstance(st, dict) else None
            live = [p.pid for p in k.live_by_marker(self.marker(i))]
            np_ = wc['opts']['numprocesses']
            self.probes['pair_watchers_checked'] += 1
            if good and (status != 'active' or len(live) != np_):
                self.viol('start_did_not_complete',
                          '[%s: %s=%s%s, beside a watcher with the other '
                          'flag] no gate fails: status=%r, %d live of %d'
                          % (wc['name'], hook, o, '+ign' if f else '',
                             status, len(live), np_), once=('pair', i))
            if not good and (status != 'stopped' or live):
                self.viol('aborted_start_not_stopped',
                          '[%s: %s=%s%s, beside a watcher with the other '
                          'flag] %s must abort the start: status=%r, live '
                          'workers %s' % (wc['name'], hook, o,
                                          '+ign' if f else '', hook, status,
                                          live), once=('pair', i),
                          gate=hook, beh='obedient',
                          what='alive' if live else 'status')
        self.check_events()

    # --------------------------------------------------------------- start
    def run_start(self, c):
        w = self.world
        name = self.cfg['watchers'][0]['name']
        h = dict(c['hooks'])
        if c.get('rehook'):
            # hooks replaced at run time (set hooks.NAME = dotted.name[,flag])
            for hook, (o, f) in sorted(c['rehook'].items()):
                r = w.call('set', {'name': name, 'options': {
                    'hooks.' + hook: 'circus_sim.hookmods.' + _INI_FN[o] +
                    (',true' if f else '')}},
                    waiting=True)
                if not isinstance(r.reply, dict) or \
                        r.reply.get('status') != 'ok':
                    self.viol('set_hook_refused', 'set hooks.%s answered %r'
                              % (hook, r.reply), once='rehook')
                    return
                h[hook] = (o, f)
            self.probes['hooks_replaced_at_run_time'] += 1
        if c.get('rehook_bad'):
            # a replacement that is refused (the name cannot be imported):
            # the installed hook stays, and so does its flag
            for hook, f in sorted(c['rehook_bad'].items()):
                r = w.call('set', {'name': name, 'options': {
                    'hooks.' + hook: 'no.such.module.fn' +
                    (',true' if f else '')}}, waiting=True)
                if isinstance(r.reply, dict) and \
                        r.reply.get('status') == 'ok':
                    self.viol('bad_hook_accepted', 'set hooks.%s = '
                              'no.such.module.fn answered ok' % hook,
                              once='rehook_bad')
                    return
            self.probes['hook_replacements_refused'] += 1
        if c['trigger'] == 'start':
            w.call('start', {'name': name}, waiting=True)
        elif c['trigger'] == 'restart':
            w.call('restart', {'name': name}, waiting=True)
        elif c['trigger'] == 'start_all':
            w.call('start', {}, waiting=True)
        ok = w.settle(extra_checks=1)
        if self.stopped() or not ok:
            return
        np_ = self.cfg['watchers'][0]['opts']['numprocesses']
        # reference model ------------------------------------------------
        exp_calls = []
        aborted = False
        exp_spawns = 0

        def gate(hook):
            o, f = h.get(hook, ('true', False))
            if hook in h:
                exp_calls.append(hook)
            return effective(o, f, hook)
        if not gate('before_start'):
            aborted = True
        else:
            for i in range(np_):
                if not gate('before_spawn'):
                    aborted = True
                    break
                exp_spawns += 1
                if not gate('after_spawn'):
                    aborted = True
                    break
            if not aborted and not gate('after_start'):
                aborted = True
        k = w.kernel
        marker = self.marker(0)
        live = [p.pid for p in k.live_by_marker(marker)]
        st = self.ask('status', {'name': name})
        status = st.get('status') if isinstance(st, dict) else None
        starts = sum(1 for e in w.ctx.events if e[2].endswith('.start'))
        got_calls = [x[3] for x in w.hook_calls if x[3] in START_HOOKS]
        desc = ' '.join('%s=%s%s' % (n, h[n][0], '+ign' if h[n][1] else '')
                        for n in START_HOOKS if n in h)
        first_bad = None
        for n in START_HOOKS:
            if n in h and not effective(h[n][0], h[n][1], n):
                first_bad = n
                break
        if aborted:
            if status != 'stopped' or live or starts:
                self.viol('aborted_start_not_stopped',
                          '[%s] %s must abort the start: status=%r, live '
                          'workers %s (%s), start events %d'
                          % (desc, first_bad, status, live,
                             c['beh'], starts), once='st', gate=first_bad,
                          beh=c['beh'],
                          what='alive' if live else 'status' if
                          status != 'stopped' else 'start_event')
        else:
            if status != 'active' or len(live) != np_ or starts != 1:
                self.viol('start_did_not_complete',
                          '[%s] no gate fails: status=%r, %d live of %d, '
                          'start events %d' % (desc, status, len(live), np_,
                                               starts), once='st')
        if got_calls != exp_calls:
            self.viol('hook_call_sequence',
                      '[%s] hooks called %s, documented order gives %s'
                      % (desc, got_calls, exp_calls), once='seq',
                      gate=first_bad)
        if len(k.spawns) != exp_spawns:
            self.viol('spawn_count', '[%s] %d workers were created, model '
                      'says %d' % (desc, len(k.spawns), exp_spawns),
                      once='sp', gate=first_bad)
        self.check_events()

    # ---------------------------------------------------------------- stop
    def run_stop(self, c):
        w = self.world
        name = self.cfg['watchers'][0]['name']
        marker = self.marker(0)
        k = w.kernel
        before = [p.pid for p in k.live_by_marker(marker)]
        r = w.call(c.get('cmd', 'stop'), {'name': name}, waiting=True)
        ok = w.settle(extra_checks=1)
        if self.stopped() or not ok:
            return
        o = r.reply
        live = [p.pid for p in k.live_by_marker(marker)
                if p.pid in before]
        st = self.ask('status', {'name': name})
        status = st.get('status') if isinstance(st, dict) else None
        desc = ' '.join('%s=%s' % (n, v[0]) for n, v in c['hooks'].items())
        want = 'stopped' if c.get('cmd', 'stop') == 'stop' else 'active'
        if live or status != want or not isinstance(o, dict) or \
                o.get('status') != 'ok':
            self.viol('stop_prevented_by_hook',
                      '[%s] %s: reply %r, status %r, old workers alive %s'
                      % (desc, c.get('cmd', 'stop'), o, status, live),
                      once='stop')
        called = [x[3] for x in w.hook_calls]
        for hname in c['hooks']:
            if hname in ('before_stop', 'after_stop') and hname not in called:
                self.viol('hook_not_called', '[%s] %s was never called'
                          % (desc, hname), once=hname)
        self.check_events()

    # -------------------------------------------------------------- signal
    def run_signal(self, c):
        w = self.world
        k = w.kernel
        name = self.cfg['watchers'][0]['name']
        marker = self.marker(0)
        pids = [p.pid for p in k.live_by_marker(marker)]
        cmd = c['cmd']
        props = {'name': name}
        if cmd == 'signal':
            props['signum'] = c['signum']
        elif cmd == 'kill' and c.get('signum'):
            props['signum'] = c['signum']
        n0 = len(k.signals)
        w.call(cmd, props, waiting=(cmd != 'signal'))
        ok = w.settle(extra_checks=1)
        if self.stopped() or not ok:
            return
        bs = c['hooks'].get('before_signal')
        sent = {}
        for e in k.signals[n0:]:
            if e['effect'] in ('probe',):
                continue
            sent.setdefault(e['pid'], []).append(e['sig'])
        stop_sig = c.get('signum') if cmd in ('signal', 'kill') and \
            c.get('signum') else 15
        desc = ' '.join('%s=%s' % (n, v[0]) for n, v in c['hooks'].items())
        suppress = bs is not None and not effective(bs[0], bs[1],
                                                    'before_signal')
        for pid in pids:
            got = sent.get(pid, [])
            if suppress and stop_sig != 9:
                if stop_sig in got:
                    self.viol('vetoed_signal_sent',
                              '[%s] before_signal returned false but signal '
                              '%s reached pid %d (%s)' % (desc, stop_sig, pid,
                                                          cmd), once=pid)
            else:
                if stop_sig not in got:
                    self.viol('signal_not_sent',
                              '[%s] signal %s must reach pid %d (%s), kernel '
                              'saw %s' % (desc, stop_sig, pid, cmd, got),
                              once=pid)
            if cmd in ('kill', 'stop', 'restart') and \
                    (suppress or c['beh'] == 'stubborn') and 9 not in got:
                self.viol('sigkill_suppressed',
                          '[%s] %s: pid %d did not leave on its own, yet no '
                          'SIGKILL reached it (kernel saw %s)'
                          % (desc, cmd, pid, got), once=pid)
            if cmd == 'signal' and stop_sig == 9 and 9 not in got:
                self.viol('sigkill_suppressed', '[%s] signal 9 to pid %d was '
                          'not sent' % (desc, pid), once=pid)
        self.check_events()

    def final(self):
        self.check_events()
        # generic invariant for random cases: a watcher reporting stopped
        # has none of its workers alive
        k = self.world.kernel
        for i, wc in enumerate(self.cfg['watchers']):
            st = self.ask('status', {'name': wc['name']})
            if isinstance(st, dict) and st.get('status') == 'stopped':
                live = [p.pid for p in k.live_by_marker(self.marker(i))]
                if live:
                    self.viol('stopped_with_live_workers',
                              '%s reports stopped, workers %s alive'
                              % (wc['name'], live), once=wc['name'])


# spelling in the file -> documented meaning (None: no flag given)
INI_FLAGS = {'True': True, 'true': True, 'yes': True, 'On': True, '1': True,
             'YES': True, 'False': False, 'no': False, 'off': False,
             '0': False, None: False}
_INI_FN = {'true': 'agree', 'false': 'veto', 'raise': 'fail'}


def _cfg(seed, np_, beh, hooks, autostart, grace=0.3, check_delay=1.0):
    mix = [{'p': 1, 'label': 'obedient', 'delay': [0.0]}] if beh == 'obedient' \
        else [{'p': 1, 'label': 'stubborn', 'ignore': 'all'}]
    h = dict((n, {'script': [o], 'ignore': bool(f)})
             for n, (o, f) in hooks.items())
    return {'seed': seed, 'check_delay': check_delay, 'warmup_delay': 0,
            'spawn_cost': 0.001, 'log': True,
            'watchers': [{'name': 'hk', 'marker': 'm0',
                          'opts': {'numprocesses': np_,
                                   'graceful_timeout': grace,
                                   'warmup_delay': 0, 'autostart': autostart},
                          'mix': mix, 'hooks': h}]}


class C14(Prop):
    id = 'C14'
    level = 'fault_enumeration'
    rule = ('systematic: every assignment of {true,false,raise} x {ignore '
            'flag} to before_start, before_spawn, after_spawn, after_start '
            '(3^4*2^4 = 1296) x {obedient, stubborn worker} x numprocesses '
            '{1,2} for start (quick tier: a seeded 10 % sample, rotating '
            'triggers start / restart / daemon start); all 36 '
            'before_stop/after_stop assignments under stop and restart; '
            'before_signal/after_signal under signal (several signals incl. '
            'SIGKILL), kill and stop, the latter two also with stop_children; '
            'hooks that answer None (no verdict: false); two watchers of one '
            'daemon with the same raising hook and different flags; '
            'every start hook replaced at run time by '
            'a set request (6 old x 6 new outcome / flag pairs); judged against a reference model of '
            'the documented gating. random part: per-call varying hook '
            'scripts with worker deaths at kernel-call boundaries. a case is '
            'non-trivial when at least one hook fails or vetoes; distinct = '
            'distinct case descriptor')
    chunk = 200
    enum_is_whole_space = True
    budget = {'quick': 20, 'thorough': 600}

    def all_cases(self):
        cases = []
        vals = [(o, f) for o in OUTCOMES for f in (False, True)]
        trig = ['start', 'daemon', 'restart']
        i = 0
        for combo in itertools.product(vals, repeat=4):
            hooks = dict(zip(START_HOOKS, combo))
            for beh in ('obedient', 'stubborn'):
                for np_ in (1, 2):
                    cases.append({'c14': {'kind': 'start', 'hooks': hooks,
                                          'beh': beh, 'np': np_,
                                          'trigger': trig[i % 3]}})
                    i += 1
        # a watcher defined empty (numprocesses = 0, scaled up later): only
        # before_start and after_start are consulted, and they gate the start
        # all the same
        for combo in itertools.product(vals, repeat=2):
            hooks = dict(zip(('before_start', 'after_start'), combo))
            for t in trig:
                cases.append({'c14': {'kind': 'start', 'hooks': hooks,
                                      'beh': 'obedient', 'np': 0,
                                      'trigger': t}})
        # the same gates configured in an ini file, the ignore-failure flag in
        # every spelling the file format accepts
        for hook in START_HOOKS:
            for flag in INI_FLAGS:
                for out in ('raise', 'false'):
                    cases.append({'c14': {
                        'kind': 'start', 'ini': True,
                        'hooks': {hook: (out, INI_FLAGS[flag])},
                        'ini_flags': {hook: flag}, 'beh': 'obedient',
                        'np': 2, 'trigger': 'start'}})
        # exceptions that carry no message
        for hook in START_HOOKS:
            for flag in (False, True):
                cases.append({'c14': {
                    'kind': 'start', 'hooks': {hook: ('raise_bare', flag)},
                    'beh': 'obedient', 'np': 2, 'trigger': 'start',
                    'none': True}})
        for cmd in ('stop', 'restart'):
            cases.append({'c14': {'kind': 'stop', 'hooks': {
                'before_stop': ('raise_bare', False),
                'after_stop': ('raise_bare', False)},
                'beh': 'obedient', 'np': 2, 'cmd': cmd, 'none': True}})
        cases.append({'c14': {'kind': 'signal', 'hooks': {
            'before_signal': ('raise_bare', False)}, 'beh': 'obedient',
            'np': 2, 'cmd': 'signal', 'signum': 15, 'none': True}})
        # a replacement that is refused leaves hook and flag as they were
        for hook in START_HOOKS:
            for flag in (False, True):
                cases.append({'c14': {
                    'kind': 'start', 'hooks': {hook: ('raise', flag)},
                    'rehook_bad': {hook: not flag}, 'beh': 'obedient',
                    'np': 2, 'trigger': 'start', 'none': True}})
        # two watchers in one daemon, the same hook raising in both, the
        # ignore-failure flag set for one of them only (both orders)
        for hook in START_HOOKS:
            for first in (True, False):
                cases.append({'c14': {
                    'kind': 'pair', 'np': 1, 'beh': 'obedient',
                    'hooks': {hook: ('raise', first)},
                    'pair': [{hook: ('raise', first)},
                             {hook: ('raise', not first)}]}})
        # a hook that answers nothing (no return statement): that is not
        # "true", whatever the ignore-failure flag says (it is about
        # exceptions)
        for hook in START_HOOKS:
            for flag in (False, True):
                for np_ in (1, 2):
                    cases.append({'c14': {
                        'kind': 'start', 'hooks': {hook: ('none', flag)},
                        'beh': 'obedient', 'np': np_, 'trigger': 'start',
                        'none': True}})
        for cmd, sg in (('signal', 15), ('signal', 10), ('kill', None),
                        ('stop', None)):
            for beh in ('obedient', 'stubborn'):
                cases.append({'c14': {
                    'kind': 'signal', 'hooks': {'before_signal':
                                                ('none', False)},
                    'beh': beh, 'np': 2, 'cmd': cmd, 'signum': sg,
                    'none': True}})
        # a hook replaced at run time by a set request: outcome and flag of
        # the new one count, whatever the old one's were
        for hook in START_HOOKS:
            for old in vals:
                for new in vals:
                    cases.append({'c14': {
                        'kind': 'start', 'hooks': {hook: old},
                        'rehook': {hook: new}, 'beh': 'obedient', 'np': 2,
                        'trigger': 'start'}})
        for combo in itertools.product(vals, repeat=2):
            hooks = dict(zip(('before_stop', 'after_stop'), combo))
            for beh in ('obedient', 'stubborn'):
                for cmd in ('stop', 'restart'):
                    cases.append({'c14': {'kind': 'stop', 'hooks': hooks,
                                          'beh': beh, 'np': 2, 'cmd': cmd}})
        for combo in itertools.product(vals, repeat=2):
            hooks = dict(zip(('before_signal', 'after_signal'), combo))
            for beh in ('obedient', 'stubborn'):
                for cmd, sg in (('signal', 15), ('signal', 10), ('signal', 9),
                                # (SIGSTOP cannot be caught either, but only
                                # SIGKILL is exempt from the veto)
                                ('signal', 19), ('signal', 18),
                                ('kill', None), ('kill', 2), ('stop', None)):
                    cases.append({'c14': {'kind': 'signal', 'hooks': hooks,
                                          'beh': beh, 'np': 2, 'cmd': cmd,
                                          'signum': sg}})
                    if cmd != 'signal':
                        # the same with stop_children: the stop signal takes
                        # another path to the worker, the gate is the same
                        cases.append({'c14': {
                            'kind': 'signal', 'hooks': hooks, 'beh': beh,
                            'np': 2, 'cmd': cmd, 'signum': sg,
                            'stop_children': True}})
        # pairs of hooks from different phases
        for a in START_HOOKS:
            for b in ('before_stop', 'after_stop', 'before_signal'):
                for oa in OUTCOMES:
                    for ob in OUTCOMES:
                        cases.append({'c14': {
                            'kind': 'start', 'hooks': {a: (oa, False),
                                                       b: (ob, False)},
                            'beh': 'stubborn', 'np': 2, 'trigger': 'start'}})
        return cases

    def enum_cases(self, tier, master):
        cases = self.all_cases()
        if tier == 'quick':
            rng = random.Random('c14/%s' % master)
            cases = [c for c in cases if rng.random() < 0.1 or
                     c['c14'].get('np') == 0 or c['c14'].get('ini') or
                     c['c14'].get('stop_children') or
                     c['c14'].get('none') or
                     c['c14'].get('kind') == 'pair' or
                     (c['c14'].get('rehook') and list(
                         c['c14']['rehook'].values())[0][0] == 'raise')]
        return cases

    def materialize(self, case):
        c = case['c14']
        seed = 14
        if c['kind'] == 'start':
            hooks = dict((k, tuple(v)) for k, v in c['hooks'].items())
            auto = c['trigger'] == 'daemon'
            cfg = _cfg(seed, c['np'], c['beh'], hooks, auto)
            if c.get('ini'):
                # the hooks go into the configuration file instead
                wc = cfg['watchers'][0]
                wc.pop('hooks', None)
                wc['opts']['graceful_timeout'] = 0.3
                wc['opts']['warmup_delay'] = 0
                wc['ini_hooks'] = dict(
                    (h, _INI_FN[o] + ('' if c['ini_flags'].get(h) is None
                                      else ', %s' % c['ini_flags'][h]))
                    for h, (o, f) in hooks.items())
                cfg['from_ini'] = True
                cfg['warmup_delay'] = 0
        elif c['kind'] == 'pair':
            hooks = dict((k, tuple(v)) for k, v in c['hooks'].items())
            c['pair'] = [dict((k, tuple(v)) for k, v in d.items())
                         for d in c['pair']]
            cfg = _cfg(seed, c['np'], c['beh'], c['pair'][0], False)
            second = _cfg(seed, c['np'], c['beh'], c['pair'][1],
                          False)['watchers'][0]
            second['name'] = 'hk2'
            second['marker'] = 'm1'
            cfg['watchers'].append(second)
        else:
            hooks = dict((k, tuple(v)) for k, v in c['hooks'].items())
            cfg = _cfg(seed, c['np'], c['beh'], hooks, True)
            if c.get('stop_children'):
                cfg['watchers'][0]['opts']['stop_children'] = True
        c['hooks'] = hooks
        if c.get('rehook'):
            c['rehook'] = dict((k, tuple(v)) for k, v in c['rehook'].items())
        return {'cfg': cfg, 'ops': case.get('ops', []), 'c14': c}

    def gen(self, rng, tier, seed):
        cfg = gen.gen_base_cfg(rng, seed, nwatch=(1, 2),
                               kinds=('obedient', 'slow', 'stubborn'))
        for wc in cfg['watchers']:
            wc['hooks'] = gen.gen_hooks(
                rng, names=START_HOOKS + ('before_stop', 'after_stop',
                                          'before_signal', 'after_signal'),
                p=0.5, bad_p=0.5)
        ops = gen.gen_history(rng, cfg, rng.choice([2, 3, 5]),
                              ['start', 'stop', 'restart', 'signal', 'kill',
                               'incr', 'reload'], None)
        return {'cfg': cfg, 'ops': ops, 'c14': {'kind': 'random'}}

    def run(self, case):
        if 'cfg' not in case:
            case = self.materialize(dict(case))
        ep = C14Episode(case)
        ep.run()
        c = case['c14']
        nontrivial = True
        if c['kind'] != 'random':
            nontrivial = any(v[0] != 'true' for v in c['hooks'].values())
        res = self.result(ep, nontrivial=nontrivial)
        if c['kind'] != 'random':
            res['sig'] = repr(sorted(c.items(), key=str))
        return res


PROP = C14()
