#!/bin/sh
# usage: tools/seedcheck.sh <dir with seed_patch.diff/patch.diff + demo> "<props>" [budget]
# confirms a seeded change (demo fails with it, passes without) and runs the
# listed checks against a scratch worktree of /repo with the change applied.
# SEED_BASE=<commit> uses that commit instead of HEAD (a seed written for an
# older tree whose trigger a later repair made unreachable).
SRC=$1; PROPS=$2; BUDGET=${3:-25}
PATCH=$SRC/seed_patch.diff; [ -f "$PATCH" ] || PATCH=$SRC/patch.diff
DEMO=$SRC/seed_demo.py; [ -f "$DEMO" ] || DEMO=$(ls $SRC/demo* | head -1)
WT=$(mktemp -d /tmp/seedchk.XXXXXX); rmdir $WT
git -C /repo worktree add -q --detach $WT ${SEED_BASE:-HEAD} || exit 3
cp $DEMO $WT/seed_demo.py
# (some demos assert that circus is imported from the author's own worktree)
sed -i "/assert circus.__file__.startswith('\/tmp\/seed/d" $WT/seed_demo.py
cd $WT
echo "== demo on the unchanged tree"; PYTHONPATH=$WT timeout 300 /venv/bin/python seed_demo.py > $WT.clean.log 2>&1; echo "exit $?"; tail -2 $WT.clean.log
git apply $PATCH || { echo "PATCH DOES NOT APPLY"; git -C /repo worktree remove --force $WT; exit 3; }
echo "== demo with the change"; PYTHONPATH=$WT timeout 300 /venv/bin/python seed_demo.py > $WT.patched.log 2>&1; echo "exit $?"; tail -2 $WT.patched.log
cd /verif
EV=$(mktemp -d /tmp/seedev.XXXXXX)
for p in $PROPS; do
  VERIF_REPO=$WT VERIF_EVIDENCE_DIR=$EV VERIF_REPLAY_DIR=$EV /venv/bin/python -m circus_sim check --property $p --tier quick --budget $BUDGET 2>&1 \
    | grep -E "^C[0-9]+ |oracle=|HARNESS" | cut -c1-260 | sort | uniq -c | sort -rn | head -8
done
rm -rf $EV
git -C /repo worktree remove --force $WT; rm -f $WT.clean.log $WT.patched.log
