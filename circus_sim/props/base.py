"""Base class of a property check."""

REAL = ['circus.arbiter', 'circus.watcher', 'circus.process (all but the Popen '
        'call)', 'circus.controller', 'circus.sighandler', 'circus.commands.*',
        'circus.util', 'tornado gen/ioloop/PeriodicCallback', 'asyncio '
        'futures/tasks/handles', 'selectors.EpollSelector']
STUB = ['clock and sleeping (virtual)', 'fork/exec, process table, signals, '
        'waitpid, psutil views (SimKernel, validated by selftest conformance)',
        'libzmq sockets / ZMQStream / Poller (SimContext, Transport)',
        'OS signals to the daemon (handler called by the scheduler)']
ASSUME = ['kernel model: no pid reuse, no EPERM on own children, preexec_fn '
          'effects (setsid/uid/gid/rlimits) not modelled',
          'a clean batch is evidence for the sampled schedules, not a proof',
          'PYTHONHASHSEED is fixed to 0 by the launcher']


class Prop(object):
    id = None
    level = 'exploration'
    rule = ''
    budget = {'quick': 40, 'thorough': 900}
    max_runs = {'quick': 10 ** 9, 'thorough': 10 ** 9}
    chunk = 100
    episode_timeout = 120
    minimize_runs = 300
    enum_ignores_budget = True
    enum_hard_budget = {'quick': 600, 'thorough': 7200}
    enum_is_whole_space = False
    components = {'real': REAL, 'stub': STUB}
    assumptions = ASSUME

    def gen(self, rng, tier, seed):
        raise NotImplementedError

    def run(self, case):
        raise NotImplementedError

    @staticmethod
    def result(ep, nontrivial=None, extra_probes=None):
        """standard result dict from a lifecycle Episode"""
        ops = {}
        for k, v in ep.fired.items():
            if k.startswith('req:'):
                ops[k[4:]] = ops.get(k[4:], 0) + v
        nt = nontrivial if nontrivial is not None else ep.inflight_faults > 0
        return {'violations': [v.as_dict() for v in ep.violations],
                'fired': dict(ep.fired), 'probes': dict(ep.probes),
                'ops': ops, 'sig': ep.signature(), 'nontrivial': bool(nt),
                'stats': getattr(ep, 'stats', {}), 'aborted': ep.aborted,
                'digest': getattr(ep, 'digest', None)}
