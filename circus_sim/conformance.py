"""Conformance of the kernel model: the same scripted scenarios are run against
real processes (psutil.Popen, os.waitpid) and against SimKernel/SimPopen and
the observable results are compared call by call.  Real processes validate the
model only; they never decide a property."""
import errno
import os
import signal
import subprocess
import sys
import time as _t

import psutil

from . import sim as simmod
from . import kernel as kmod

_sleep = simmod._real_sleep
_now = simmod._real_time

PY = sys.executable


def obs(fn):
    """run fn, describe result or exception in a comparable way"""
    try:
        r = fn()
    except psutil.NoSuchProcess:
        return 'NoSuchProcess'
    except psutil.ZombieProcess:
        return 'ZombieProcess'
    except ChildProcessError:
        return 'ECHILD'
    except ProcessLookupError:
        return 'ESRCH'
    except FileNotFoundError:
        return 'ENOENT'
    except PermissionError:
        return 'EACCES'
    except OSError as e:
        return 'OSError:%s' % errno.errorcode.get(e.errno, e.errno)
    except psutil.TimeoutExpired:
        return 'TimeoutExpired'
    if isinstance(r, list):
        return ['<proc>' if hasattr(x, 'pid') else x for x in r]
    return r


class RealBackend(object):
    name = 'real'

    def __init__(self):
        self.procs = []

    def spawn(self, kind, **kw):
        if kind == 'sleeper':
            args = ['sleep', '30']
        elif kind == 'exit3':
            args = ['sh', '-c', 'exit 3']
        elif kind == 'ignore_term':
            args = [PY, '-c', 'import signal,time,sys;'
                    'signal.signal(signal.SIGTERM, signal.SIG_IGN);'
                    'sys.stdout.write("r\\n");sys.stdout.flush();'
                    'time.sleep(30)']
            kw['stdout'] = subprocess.PIPE
        elif kind == 'catch_term_exit5':
            args = [PY, '-c', 'import signal,time,sys,os;'
                    'signal.signal(signal.SIGTERM, lambda *a: os._exit(5));'
                    'sys.stdout.write("r\\n");sys.stdout.flush();'
                    'time.sleep(30)']
            kw['stdout'] = subprocess.PIPE
        elif kind == 'forker':
            args = [PY, '-c', 'import subprocess,sys,time;'
                    'a=subprocess.Popen(["sleep","30"]);'
                    'b=subprocess.Popen(["sleep","30"]);'
                    'sys.stdout.write("r\\n");sys.stdout.flush();'
                    'time.sleep(30)']
            kw['stdout'] = subprocess.PIPE
        elif kind == 'writer':
            args = [PY, '-c', 'import sys;sys.stdout.write("hello");'
                    'sys.stdout.flush()']
            kw['stdout'] = subprocess.PIPE
        elif kind == 'noexec':
            args = ['/nonexistent/definitely-not-here']
        else:
            raise ValueError(kind)
        p = psutil.Popen(args, **kw)
        self.procs.append(p)
        if kind in ('ignore_term', 'catch_term_exit5', 'forker'):
            p.stdout.readline()
        return p

    def until_dead(self, p, timeout=5.0):
        """wait (really) until the process is a zombie or gone"""
        t0 = _now()
        while _now() - t0 < timeout:
            try:
                with open('/proc/%d/stat' % p.pid) as f:
                    st = f.read().rsplit(')', 1)[1].split()[0]
                if st == 'Z':
                    return True
            except (IOError, OSError):
                return True
            _sleep(0.005)
        return False

    def pause(self, d):
        _sleep(d)

    def waitpid(self, pid, opt):
        return os.waitpid(pid, opt)

    def kids_of(self, p):
        return [c.pid for c in p.children()]

    def pid_alive(self, pid):
        try:
            with open('/proc/%d/stat' % pid) as f:
                st = f.read().rsplit(')', 1)[1].split()[0]
            return st != 'Z'
        except (IOError, OSError):
            return False

    def ext_kill(self, pid):
        try:
            os.kill(pid, signal.SIGKILL)
        except OSError:
            pass

    def read_all(self, p):
        out = b''
        while True:
            b = os.read(p.stdout.fileno(), 1024)
            if not b:
                return out
            out += b

    def cleanup(self):
        for p in self.procs:
            try:
                for c in p.children(recursive=True):
                    try:
                        c.kill()
                    except Exception:
                        pass
            except Exception:
                pass
            try:
                p.kill()
            except Exception:
                pass
            try:
                os.waitpid(p.pid, 0)
            except OSError:
                pass
            for f in (p.stdout, p.stderr):
                if f is not None:
                    try:
                        f.close()
                    except Exception:
                        pass


class SimBackend(object):
    name = 'sim'

    def __init__(self):
        self.sim = simmod.Sim(1)
        self.kinds = []
        self.kernel = kmod.SimKernel(self.sim, behaviour_for=self._beh,
                                     spawn_cost=0.001)
        self.Popen = kmod.make_popen(self.kernel)

    def _beh(self, k, args, kw, n):
        kind = self.kinds[-1]
        B = kmod.Behaviour
        if kind == 'sleeper':
            return B(latency=0.001)
        if kind == 'exit3':
            return B(lifetime=0.002, self_status=kmod.status_exit(3))
        if kind == 'ignore_term':
            return B(ignore=frozenset([15]), latency=0.001)
        if kind == 'catch_term_exit5':
            return B(react_exit=5, react_delay=0.001)
        if kind == 'forker':
            return B(children=[B(), B()], latency=0.001,
                     reaps_children=False)
        if kind == 'writer':
            return B(lifetime=0.002, self_status=0)
        return B()

    def spawn(self, kind, **kw):
        self.kinds.append(kind)
        if kind == 'noexec':
            self.kernel.exec_fail_plan[self.kernel.popen_calls + 1] = \
                errno.ENOENT
            return self.Popen(['/nonexistent/definitely-not-here'], **kw)
        if kind in ('ignore_term', 'catch_term_exit5', 'forker', 'writer'):
            kw['stdout'] = kmod.PIPE
        p = self.Popen([kind], **kw)
        if kind == 'writer':
            os.write(self.kernel.procs[p.pid].stdout_w.fd, b'hello')
        return p

    def until_dead(self, p, timeout=5.0):
        t0 = self.sim.now
        while self.sim.now - t0 < timeout:
            if not self.kernel.procs[p.pid].alive:
                return True
            self.sim.advance(0.005)
        return False

    def pause(self, d):
        self.sim.advance(d)

    def waitpid(self, pid, opt):
        return self.kernel.waitpid(pid, opt)

    def kids_of(self, p):
        return [c.pid for c in p.children()]

    def pid_alive(self, pid):
        q = self.kernel.procs.get(pid)
        return q is not None and q.alive

    def ext_kill(self, pid):
        self.kernel.external_signal(pid, 9)

    def read_all(self, p):
        out = b''
        while True:
            b = os.read(p.stdout.fileno(), 1024)
            if not b:
                return out
            out += b

    def cleanup(self):
        self.kernel.close_all()


def wdecode(st):
    if isinstance(st, tuple):
        pid, s = st
        if pid == 0:
            return ('none', 0)
        if os.WIFSIGNALED(s):
            return ('sig', os.WTERMSIG(s))
        return ('exit', os.WEXITSTATUS(s))
    return st


# ------------------------------------------------------------------ scenarios
def sc_exit_zombie_waitpid(b):
    p = b.spawn('exit3')
    o = [b.until_dead(p)]
    o.append(obs(p.status))
    o.append(obs(p.is_running))
    o.append(obs(p.children))
    o.append(obs(lambda: p.send_signal(15)))
    o.append(wdecode(obs(lambda: b.waitpid(p.pid, os.WNOHANG))))
    o.append(obs(p.status))
    o.append(obs(p.is_running))
    o.append(obs(p.children))
    o.append(obs(lambda: p.children(recursive=True)))
    o.append(obs(lambda: p.send_signal(15)))
    o.append(obs(p.terminate))
    o.append(obs(p.poll))
    o.append(p.returncode)
    o.append(wdecode(obs(lambda: b.waitpid(p.pid, os.WNOHANG))))
    return o


def sc_exit_zombie_poll(b):
    p = b.spawn('exit3')
    o = [b.until_dead(p)]
    o.append(p.returncode)
    o.append(obs(p.poll))
    o.append(p.returncode)
    o.append(obs(p.poll))
    o.append(wdecode(obs(lambda: b.waitpid(p.pid, os.WNOHANG))))
    o.append(obs(p.status))
    o.append(obs(p.is_running))
    o.append(obs(lambda: p.send_signal(9)))
    return o


def sc_signal_default(b):
    o = []
    for sig in (15, 2, 1, 10, 9):
        p = b.spawn('sleeper')
        o.append(obs(p.poll))
        o.append(obs(p.status) in ('sleeping', 'running', 'disk-sleep'))
        o.append(obs(p.is_running))
        o.append(obs(lambda: p.send_signal(sig)))
        o.append(b.until_dead(p))
        o.append(obs(p.status))
        o.append(wdecode(obs(lambda: b.waitpid(p.pid, os.WNOHANG))))
        o.append(obs(p.poll))
    return o


def sc_signal_poll_decode(b):
    p = b.spawn('sleeper')
    o = [obs(p.terminate), b.until_dead(p), obs(p.poll), p.returncode]
    return o


def sc_waitpid_any(b):
    o = []
    o.append(wdecode(obs(lambda: b.waitpid(-1, os.WNOHANG))))
    p = b.spawn('sleeper')
    o.append(wdecode(obs(lambda: b.waitpid(-1, os.WNOHANG))))
    o.append(wdecode(obs(lambda: b.waitpid(p.pid, os.WNOHANG))))
    q = b.spawn('exit3')
    o.append(b.until_dead(q))
    r = obs(lambda: b.waitpid(-1, os.WNOHANG))
    o.append(wdecode(r))
    o.append(r[0] == q.pid if isinstance(r, tuple) else r)
    o.append(wdecode(obs(lambda: b.waitpid(-1, os.WNOHANG))))
    o.append(obs(lambda: p.send_signal(9)))
    o.append(b.until_dead(p))
    o.append(wdecode(obs(lambda: b.waitpid(-1, os.WNOHANG))))
    o.append(wdecode(obs(lambda: b.waitpid(-1, os.WNOHANG))))
    # foreign / not-our-child pid
    o.append(wdecode(obs(lambda: b.waitpid(1, os.WNOHANG))))
    return o


def sc_invalid_signals(b):
    p = b.spawn('sleeper')
    o = []
    for s in (999, 65, -1, 0):
        o.append(obs(lambda: p.send_signal(s)))
    o.append(obs(p.is_running))
    o.append(obs(p.poll))
    o.append(obs(lambda: p.send_signal(64)))
    o.append(b.until_dead(p))
    o.append(wdecode(obs(lambda: b.waitpid(p.pid, os.WNOHANG))))
    return o


def sc_stop_cont(b):
    p = b.spawn('sleeper')
    o = [obs(lambda: p.send_signal(signal.SIGSTOP))]
    b.pause(0.05)
    o.append(obs(p.status))
    o.append(obs(p.is_running))
    o.append(obs(p.poll))
    o.append(obs(lambda: p.send_signal(15)))
    b.pause(0.05)
    o.append(obs(p.status))
    o.append(obs(p.poll))
    o.append(obs(lambda: p.send_signal(signal.SIGCONT)))
    o.append(b.until_dead(p))
    o.append(wdecode(obs(lambda: b.waitpid(p.pid, os.WNOHANG))))
    return o


def sc_ignore_term(b):
    p = b.spawn('ignore_term')
    o = [obs(lambda: p.send_signal(15))]
    b.pause(0.1)
    o.append(obs(p.poll))
    o.append(obs(p.is_running))
    o.append(obs(p.terminate))
    b.pause(0.05)
    o.append(obs(p.poll))
    o.append(obs(lambda: p.send_signal(9)))
    o.append(b.until_dead(p))
    o.append(obs(p.poll))
    return o


def sc_catch_term(b):
    p = b.spawn('catch_term_exit5')
    o = [obs(lambda: p.send_signal(15)), b.until_dead(p)]
    o.append(wdecode(obs(lambda: b.waitpid(p.pid, os.WNOHANG))))
    return o


def sc_children(b):
    p = b.spawn('forker')
    o = []
    kids = b.kids_of(p)
    o.append(len(kids))
    o.append(len(obs(lambda: p.children(recursive=True))))
    c0 = p.children()[0]
    o.append(obs(lambda: c0.send_signal(15)))
    b.pause(0.1)
    o.append(len(b.kids_of(p)))
    o.append(obs(lambda: c0.send_signal(15)))
    # parent dies: children are re-parented, children() of a zombie is []
    o.append(obs(lambda: p.send_signal(9)))
    o.append(b.until_dead(p))
    o.append(obs(p.children))
    o.append(obs(lambda: p.children(recursive=True)))
    o.append([b.pid_alive(k) for k in kids])
    o.append(wdecode(obs(lambda: b.waitpid(p.pid, os.WNOHANG))))
    o.append(obs(p.children))
    for k in kids:
        b.ext_kill(k)
    return o


def sc_pipe_eof(b):
    p = b.spawn('writer')
    o = [b.until_dead(p)]
    o.append(b.read_all(p))
    o.append(obs(p.poll))
    return o


def sc_exec_failure(b):
    o = [obs(lambda: b.spawn('noexec'))]
    o.append(wdecode(obs(lambda: b.waitpid(-1, os.WNOHANG))))
    return o


def sc_close_fds(b):
    """inheritable-flag semantics used by the C07 descriptor-table model"""
    r, w = os.pipe()
    r2, w2 = os.pipe()
    os.set_inheritable(w2, True)
    try:
        if b.name == 'real':
            code = ('import os,sys;'
                    'print(int(os.path.exists("/proc/self/fd/%d")),'
                    'int(os.path.exists("/proc/self/fd/%d")))' % (w, w2))
            a = subprocess.run([PY, '-c', code], close_fds=False,
                               capture_output=True, text=True).stdout.split()
            c = subprocess.run([PY, '-c', code], close_fds=True,
                               capture_output=True, text=True).stdout.split()
            d = subprocess.run([PY, '-c', code], close_fds=True,
                               pass_fds=(w,), capture_output=True,
                               text=True).stdout.split()
            return [a, c, d]
        t1 = kmod.compute_fdtable({'close_fds': False})
        t2 = kmod.compute_fdtable({'close_fds': True})
        t3 = kmod.compute_fdtable({'close_fds': True, 'pass_fds': (w,)})
        f = lambda t: [str(int(w in t)), str(int(w2 in t))]   # noqa: E731
        return [f(t1), f(t2), f(t3)]
    finally:
        for fd in (r, w, r2, w2):
            os.close(fd)


SCENARIOS = [sc_exit_zombie_waitpid, sc_exit_zombie_poll, sc_signal_default,
             sc_signal_poll_decode, sc_waitpid_any, sc_invalid_signals,
             sc_stop_cont, sc_ignore_term, sc_catch_term, sc_children,
             sc_pipe_eof, sc_exec_failure, sc_close_fds]


def run(verbose=True):
    bad = 0
    import signal as _signal
    # started as a background job of a shell without job control, SIGINT and
    # SIGQUIT arrive ignored and the real children would inherit that: give
    # them the default disposition the scenarios are about
    for _s, _h in ((_signal.SIGINT, _signal.default_int_handler),
                   (_signal.SIGQUIT, _signal.SIG_DFL)):
        if _signal.getsignal(_s) == _signal.SIG_IGN:
            _signal.signal(_s, _h)
    for sc in SCENARIOS:
        rb = RealBackend()
        try:
            real = sc(rb)
        finally:
            rb.cleanup()
        sb = SimBackend()
        try:
            simr = sc(sb)
        finally:
            sb.cleanup()
        ok = real == simr
        if not ok:
            bad += 1
        if verbose or not ok:
            print('%-28s %s' % (sc.__name__, 'ok' if ok else 'MISMATCH'))
            if not ok:
                for i, (x, y) in enumerate(zip(real, simr)):
                    if x != y:
                        print('    step %d: real=%r sim=%r' % (i, x, y))
                if len(real) != len(simr):
                    print('    lengths differ', len(real), len(simr))
    print('conformance: %d scenarios, %d mismatches' % (len(SCENARIOS), bad))
    return 0 if bad == 0 else 2
