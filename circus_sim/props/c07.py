"""C07 - managed sockets reach every worker generation and are never
rebound."""
import os
import re
import socket
import stat

from .base import Prop
from ..lifecycle import Episode
from ..world import World
from .. import gen


class C07Episode(Episode):
    def setup_ini(self):
        """the same daemon described by a configuration file (sockets with
        their family / type spelt in any letter case), so that reloadconfig
        of the unchanged file can be among the operations"""
        from .. import ini
        self.world = World(dict(self.cfg, want_fdtable=True))
        d = self.world.scratch_dir()
        socks = []
        for i, sc in enumerate(self.cfg['sockets']):
            ent = {'name': sc['name']}
            if sc['kind'] == 'unix':
                ent['path'] = os.path.join(d, 's%d.sock' % i)
            else:
                ent['host'] = '127.0.0.1'
                ent['port'] = 0
            if sc.get('family'):
                ent['family'] = sc['family']
            if sc.get('type'):
                ent['type'] = sc['type']
            if sc.get('seqpacket'):
                ent['type'] = 'SOCK_SEQPACKET'
            socks.append(ent)
        ws = []
        for wc in self.cfg['watchers']:
            o = wc['opts']
            ent = {'name': wc['name'], 'cmd': wc['cmd'],
                   'numprocesses': o['numprocesses'],
                   'graceful_timeout': o['graceful_timeout'],
                   'warmup_delay': int(o.get('warmup_delay', 0))}
            if o.get('use_sockets'):
                ent['use_sockets'] = True
            if o.get('shell'):
                ent['shell'] = True
            if o.get('stdin_socket'):
                ent['stdin_socket'] = o['stdin_socket']
            ws.append(ent)
            self.world.mix[wc.get('marker', wc['name'])] = wc.get('mix')
        path = os.path.join(d, 'circus.ini')
        self.ini_state = {'path': path, 'ws': ws, 'socks': socks}
        self.write_c07_ini()
        if self.cfg.get('httpd'):
            import sys
            import types
            # (only imported by the daemon to see that it is installed)
            sys.modules.setdefault('circusweb', types.ModuleType('circusweb'))
        a = self.world.build_from_ini(path)
        self.socks = {}
        for sc in list(self.cfg['sockets']) + (
                [{'name': 'circushttpd', 'kind': 'inet'}]
                if self.cfg.get('httpd') else []):
            key = [k for k in a.sockets
                   if k.lower() == sc['name'].lower()][0]
            sk = a.sockets[key]
            rec = {'sock': sk, 'bind': 0, 'listen': 0, 'close': 0,
                   'kind': sc['kind'], 'reuseport': False, 'name': key,
                   'seqpacket': bool(sc.get('seqpacket'))}
            self.socks[sc['name'].lower()] = rec
            for meth in ('bind', 'listen', 'close'):
                orig = getattr(sk, meth)

                def wrapped(*a_, _o=orig, _r=rec, _m=meth, **kw):
                    _r[_m] += 1
                    return _o(*a_, **kw)
                setattr(sk, meth, wrapped)
        self.finish_setup()
        self.world.reply_hooks.append(self.on_reload_reply)

    def on_reload_reply(self, r, ent):
        """sockets that a reloadconfig added are managed sockets like the
        others from the reply on"""
        o = ent[5]
        if r.cmd != 'reloadconfig' or not isinstance(o, dict) or \
                o.get('status') != 'ok':
            return
        for key, sk in self.world.arbiter.sockets.items():
            if key.lower() in self.socks or key == 'circushttpd':
                continue
            try:
                st = os.fstat(sk.fileno())
            except (OSError, ValueError):
                continue
            self.socks[key.lower()] = {
                'sock': sk, 'bind': 1, 'listen': 1, 'close': 0,
                'kind': 'unix', 'reuseport': False, 'name': key,
                'seqpacket': False, 'ino': (st.st_dev, st.st_ino),
                'fd': sk.fileno(), 'addr': sk.getsockname()}
            self.probes['socket_added_by_reloadconfig'] += 1

    def write_c07_ini(self):
        from .. import ini
        st = self.ini_state
        with open(st['path'], 'w') as f:
            c = {'check_delay': self.cfg.get('check_delay', 1.0)}
            if self.cfg.get('httpd'):
                c.update(httpd='True', httpd_host='127.0.0.1', httpd_port=0)
            f.write(ini.render(circus=c, watchers=st['ws'],
                               sockets=st['socks']))

    def op_c07edit(self, i, op):
        """the file is edited: a watcher's section changes (reloadconfig
        re-creates it) or a new use_sockets watcher appears; the sockets
        stay as they are"""
        st = getattr(self, 'ini_state', None)
        if st is None or self.world.daemon_gone():
            return
        ws = st['ws']
        if op['kind'] == 'addsocket':
            # a socket section appears in the file: existing watchers can
            # refer to it from then on
            if not any(x['name'] == 'extra' for x in st['socks']):
                st['socks'].append({'name': 'extra', 'path': os.path.join(
                    os.path.dirname(st['path']), 'extra.sock')})
        elif op['kind'] == 'change':
            ent = ws[op['w'] % len(ws)]
            ent['graceful_timeout'] = ent['graceful_timeout'] + 1
        else:
            src = self.cfg['watchers'][op['w'] % len(self.cfg['watchers'])]
            name = 'extra%d' % i
            marker = 'mx%d' % i
            wc = {'name': name, 'marker': marker, 'mix': src.get('mix'),
                  'cmd': src['cmd'].replace('--marker=%s' % src['marker'],
                                            '--marker=%s' % marker),
                  'opts': dict(src['opts'], use_sockets=True)}
            wc['opts'].pop('stdin_socket', None)
            self.spec[marker] = wc
            self.world.mix[marker] = wc.get('mix')
            ws.append({'name': name, 'cmd': wc['cmd'], 'numprocesses':
                       wc['opts']['numprocesses'], 'graceful_timeout':
                       wc['opts']['graceful_timeout'], 'use_sockets': True})
        self.fired['ini_edit:' + op['kind']] += 1
        self.write_c07_ini()

    def finish_setup(self):
        self.world.kernel.on_spawn = self.on_spawn
        self.spec = dict((wc.get('marker', wc['name']), wc)
                         for wc in self.cfg['watchers'])
        self.world.kernel.preexec_filter = lambda p: bool(
            (self.spec.get(p.marker) or {}).get('opts', {}).get(
                'stdin_socket'))
        self.generations = {}
        self.on_quiet.append(C07Episode.check_quiet)

    def setup(self):
        self.clients = []
        self.lsocks = []
        self.pending_conn = False
        if self.cfg.get('from_ini'):
            return self.setup_ini()
        from circus.sockets import CircusSocket
        self.world = World(dict(self.cfg, want_fdtable=True))
        d = self.world.scratch_dir()
        self.socks = {}
        socks = []
        for i, sc in enumerate(self.cfg['sockets']):
            name = sc['name']
            if sc['kind'] == 'unix' and sc.get('seqpacket'):
                # connection-oriented as well: bound, listening, accepted on
                s = CircusSocket(name=name, path=os.path.join(
                    d, 's%d.sock' % i), type=socket.SOCK_SEQPACKET)
            elif sc['kind'] == 'unix':
                s = CircusSocket(name=name, path=os.path.join(
                    d, 's%d.sock' % i))
            elif sc.get('reuseport'):
                # bound per worker by design: excepted from the statement,
                # but its presence in the set must not affect the others
                s = CircusSocket(name=name, host='127.0.0.1', port=0,
                                 so_reuseport=True)
            else:
                s = CircusSocket(name=name, host='127.0.0.1', port=0)
            rec = {'sock': s, 'bind': 0, 'listen': 0, 'close': 0,
                   'kind': sc['kind'], 'reuseport': bool(sc.get('reuseport')),
                   'seqpacket': bool(sc.get('seqpacket'))}
            self.socks[name.lower()] = rec
            for meth in ('bind', 'listen', 'close'):
                orig = getattr(s, meth)

                def wrapped(*a, _o=orig, _r=rec, _m=meth,
                            _fail=bool(sc.get('bind_fail')), **kw):
                    _r[_m] += 1
                    if _m == 'bind' and _fail:
                        # somebody else holds the address
                        import errno as _errno
                        e = OSError(_errno.EADDRINUSE,
                                    'Address already in use (simulated)')
                        e.simulated = True
                        raise e
                    return _o(*a, **kw)
                setattr(s, meth, wrapped)
            socks.append(s)
        ws = []
        for wc in self.cfg['watchers']:
            ws.append(self.world.make_watcher(wc))
        self.world.build(watchers=ws, sockets=socks)
        self.world.kernel.on_spawn = self.on_spawn
        self.spec = dict((wc.get('marker', wc['name']), wc)
                         for wc in self.cfg['watchers'])
        # workers whose preexec_fn touches descriptors (stdin_socket: the
        # socket is dup2()ed onto 0) get their table from a really forked
        # child that ran it
        self.world.kernel.preexec_filter = lambda p: bool(
            (self.spec.get(p.marker) or {}).get('opts', {}).get(
                'stdin_socket'))
        self.generations = {}
        self.on_quiet.append(C07Episode.check_quiet)

    def stopped(self):
        if getattr(self, 'refused_start', False):
            return True
        return super().stopped()

    def started(self):
        f = self.world.start_future
        if f is not None and f.done() and f.exception() is not None:
            # a managed socket could not be bound: the daemon does not come
            # up (and nothing of it is left running)
            self.probes['daemon_refused_to_start'] += 1
            if self.world.kernel.spawns:
                self.viol('workers_of_a_daemon_that_did_not_start',
                          'start failed with %r, yet %d workers were spawned'
                          % (f.exception(), len(self.world.kernel.spawns)))
            self.refused_start = True
            return
        for name, rec in self.socks.items():
            s = rec['sock']
            st = os.fstat(s.fileno())
            rec['ino'] = (st.st_dev, st.st_ino)
            rec['fd'] = s.fileno()
            rec['addr'] = s.getsockname()
        # the workers spawned during start-up were judged against records
        # that did not exist yet: judge them now
        for p in self.world.kernel.spawns:
            self.judge_spawn(p)

    def on_spawn(self, p):
        if any('ino' not in r for r in self.socks.values()):
            return
        self.judge_spawn(p)

    def judge_spawn(self, p):
        wc = self.spec.get(p.marker)
        if wc is None or p.fdtable is None:
            return
        self.generations[p.marker] = self.generations.get(p.marker, 0) + 1
        self.probes['spawns_checked'] += 1
        table = p.fdtable
        argv = p.argv if isinstance(p.argv, (list, tuple)) else [p.argv]
        sname = wc['opts'].get('stdin_socket')
        if sname:
            rec = self.socks.get(sname.lower())
            self.probes['stdin_socket_checked'] += 1
            if table.get('preexec_error'):
                self.viol('preexec_failed', 'worker %d of %s: preexec_fn '
                          'raised %s' % (p.pid, wc['name'],
                                         table['preexec_error']),
                          once=p.marker)
            elif rec is not None and 'ino' in rec and \
                    (table.get(0) or (None, None))[:2] != rec['ino']:
                self.viol('stdin_is_not_the_socket',
                          'worker %d of %s: stdin_socket = %s, descriptor 0 '
                          'of the child is not that socket' %
                          (p.pid, wc['name'], sname), once=p.marker)
        if not wc['opts'].get('use_sockets'):
            extra = sorted(fd for fd in table if isinstance(fd, int) and
                           fd not in (0, 1, 2))
            if extra:
                self.viol('descriptor_inherited_without_use_sockets',
                          'worker %d of %s (no use_sockets) would inherit '
                          'descriptors %s' % (p.pid, wc['name'], extra),
                          once=p.marker)
            return
        for a in argv:
            for (name, val) in re.findall(r'--fd-([A-Za-z0-9_]+)=(\S+)', a):
                rec = self.socks.get(name.lower())
                if rec is None:
                    continue
                self.probes['socket_references_checked'] += 1
                try:
                    n = int(val)
                except ValueError:
                    self.viol('socket_reference_not_substituted',
                              'worker %d of %s: %r for socket %s' %
                              (p.pid, wc['name'], val, name), once=p.marker)
                    continue
                ent = table.get(n)
                if ent is None:
                    self.viol('socket_fd_not_inherited',
                              'worker %d of %s: descriptor %d given for '
                              'socket %s is not in the child\'s table %s'
                              % (p.pid, wc['name'], n, name,
                                 sorted(k for k in table if isinstance(k, int))),
                              once=p.marker)
                elif (ent[0], ent[1]) != rec['ino'] or \
                        not stat.S_ISSOCK(ent[2]):
                    self.viol('socket_fd_is_another_file',
                              'worker %d of %s: descriptor %d is not the '
                              'socket %s bound at start-up' %
                              (p.pid, wc['name'], n, name), once=p.marker)
                else:
                    s = rec['sock']
                    try:
                        lst = s.getsockopt(socket.SOL_SOCKET,
                                           socket.SO_ACCEPTCONN)
                    except OSError:
                        lst = 0
                    if not lst:
                        self.viol('socket_not_listening',
                                  'socket %s handed to worker %d is not '
                                  'listening' % (name, p.pid), once=name)

    def check_quiet(self):
        w = self.world
        if w.daemon_gone():
            return
        ls = self.ask('listsockets', {})
        listed = dict((x['name'].lower(), x) for x in ls.get('sockets', [])) \
            if isinstance(ls, dict) else {}
        for name, rec in self.socks.items():
            if 'ino' not in rec or rec.get('reuseport'):
                continue
            self.probes['socket_liveness_checked'] += 1
            if 'name' in rec:
                cur = w.arbiter.sockets.get(rec['name'])
                if cur is not rec['sock']:
                    self.viol('socket_replaced', 'socket %s: the daemon now '
                              'holds another socket object than the one it '
                              'bound at start-up' % name, once=name)
                    continue
            if rec['bind'] != 1 or rec['listen'] != 1:
                self.viol('socket_rebound', 'socket %s: bind called %d '
                          'times, listen %d times' % (name, rec['bind'],
                                                      rec['listen']),
                          once=name)
            if rec['close']:
                self.viol('socket_closed_while_running', 'socket %s was '
                          'closed %d times while the daemon runs' %
                          (name, rec['close']), once=name)
                continue
            s = rec['sock']
            try:
                st = os.fstat(s.fileno())
                same = (st.st_dev, st.st_ino) == rec['ino']
            except (OSError, ValueError):
                same = False
            if not same:
                self.viol('socket_replaced', 'socket %s is no longer the '
                          'descriptor bound at start-up' % name, once=name)
                continue
            try:
                fam = socket.AF_UNIX if rec['kind'] == 'unix' \
                    else socket.AF_INET
                c = socket.socket(fam, socket.SOCK_SEQPACKET
                                  if rec.get('seqpacket')
                                  else socket.SOCK_STREAM)
                c.settimeout(1.0)
                c.connect(rec['addr'])
                c.close()
            except OSError as e:
                self.viol('socket_not_accepting', 'connect() to socket %s '
                          'at %r failed: %r' % (name, rec['addr'], e),
                          once=name)
            li = listed.get(name)
            if li is None or li.get('fd') != rec['fd']:
                self.viol('listsockets_differs', 'listsockets reports %r for '
                          '%s, descriptor is %d' % (li, name, rec['fd']),
                          once=name)

    def final(self):
        g = max(self.generations.values()) if self.generations else 0
        if g >= 3:
            self.probes['three_or_more_generations'] += 1

    def collect(self):
        super().collect()
        for rec in self.socks.values():
            try:
                socket.socket.close(rec['sock'])
            except Exception:
                pass


class C07(Prop):
    id = 'C07'
    level = 'exploration'
    rule = ('one case = 1-3 real CircusSockets (inet on 127.0.0.1 port 0, '
            'unix paths in a scratch directory, a fifth of the latter of type '
            'SOCK_SEQPACKET) and 1-3 watchers with and '
            'without use_sockets whose cmd refers to the sockets in both '
            'reference syntaxes and any letter case; history of worker '
            'deaths, restart, reload (all modes), incr / decr, kill over '
            'several worker generations; a fifth of the daemons is built '
            'from a configuration file and reloads it, unchanged or with a '
            'changed / added watcher section. at every simulated process creation '
            'the descriptor table the child would have after exec (computed '
            'from the daemon\'s real table: close_fds / inheritable flags) is '
            'checked against the socket inodes recorded at start-up; at '
            'quiescent points bind/listen/close call counts, a real '
            'connect() and listsockets. non-trivial = at least three worker '
            'generations of a use_sockets watcher; distinct = (event kind, '
            'abstract daemon state) sequence hash')
    chunk = 80
    budget = {'quick': 40, 'thorough': 900}
    components = {'real': Prop.components['real'] + [
        'circus.sockets.CircusSocket / CircusSockets on real listening '
        'sockets (127.0.0.1:0 and unix paths)'],
        'stub': Prop.components['stub'] + [
            'exec: the child descriptor table is computed from the daemon\'s '
            'real descriptor table with POSIX close_fds / inheritable '
            'semantics (validated by selftest conformance)']}
    REQS = ['restart', 'reload', 'incr', 'decr', 'kill', 'stop', 'start']

    def gen(self, rng, tier, seed):
        cfg = gen.gen_base_cfg(rng, seed, nwatch=(1, 2, 3),
                               kinds=('obedient', 'selfexit', 'stubborn'),
                               grace=[0, 0.05, 0.25], warmup=[0, 0.05],
                               numproc=(1, 2, 3), singleton_p=0.0)
        ns = rng.choice([1, 2, 3])
        names = rng.sample(['web', 'Api', 'UX', 'db_1'], ns)
        cfg['sockets'] = [{'name': n, 'kind': rng.choice(['inet', 'unix'])}
                          for n in names]
        for sc in cfg['sockets']:
            if sc['kind'] == 'unix' and rng.random() < 0.2:
                sc['seqpacket'] = True
        if rng.random() < 0.04:
            # one of the addresses is taken when the daemon starts: it must
            # not come up with a socket that is not bound
            rng.choice(cfg['sockets'])['bind_fail'] = True
        if rng.random() < 0.3:
            # an so_reuseport socket somewhere in the set (no watcher of the
            # case refers to it)
            cfg['sockets'].insert(rng.randrange(len(cfg['sockets']) + 1),
                                  {'name': rng.choice(['aaa_rp', 'rp', 'zz']),
                                   'kind': 'inet', 'reuseport': True})
        for wc in cfg['watchers']:
            use = rng.random() < 0.7
            if use:
                wc['opts']['use_sockets'] = True
            refs = []
            for n in rng.sample(names, rng.randrange(1, ns + 1)):
                ref = rng.choice(['$(circus.sockets.%s)',
                                  '((circus.sockets.%s))',
                                  '$(CIRCUS.SOCKETS.%s)'])
                nm = rng.choice([n, n.lower(), n.upper()])
                refs.append('--fd-%s=%s' % (n, ref % nm))
            wc['cmd'] = 'worker --marker=%s %s' % (wc['marker'],
                                                   ' '.join(refs))
            if rng.random() < 0.15:
                # run through a shell: the references are substituted before
                # the command line is handed to sh -c
                wc['opts']['shell'] = True
            if rng.random() < 0.3:
                # the socket as the worker's stdin (inetd style): with or
                # without use_sockets, nothing else may come along
                wc['opts']['stdin_socket'] = rng.choice(names)
                if use and rng.random() < 0.5:
                    # ... and referred to on the command line as well
                    n = wc['opts']['stdin_socket']
                    wc['cmd'] += ' --fd-%s=$(circus.sockets.%s)' % (n, n)
        n = rng.choice([2, 4, 6, 8]) if tier == 'quick' else \
            rng.choice([6, 10, 16, 24])
        reqs = self.REQS
        if rng.random() < 0.2:
            # described by a configuration file; reloading the unchanged
            # file must not touch the sockets either
            cfg['from_ini'] = True
            cfg['sockets'] = [s for s in cfg['sockets']
                              if not s.get('reuseport')]
            for sc in cfg['sockets']:
                sc.pop('bind_fail', None)
                fam = 'AF_UNIX' if sc['kind'] == 'unix' else 'AF_INET'
                x = rng.random()
                if x < 0.6:
                    sc['family'] = rng.choice([fam, fam.lower(),
                                               fam.title()])
                if rng.random() < 0.3 and not sc.get('seqpacket'):
                    sc['type'] = rng.choice(['SOCK_STREAM', 'sock_stream'])
            for wc in cfg['watchers']:
                wc['opts']['warmup_delay'] = int(wc['opts']['warmup_delay'])
                if wc['opts'].get('stdin_socket'):
                    # (section names are lower-cased by the configuration
                    # reader; stdin_socket is looked up as written)
                    wc['opts']['stdin_socket'] = \
                        wc['opts']['stdin_socket'].lower()
            reqs = self.REQS + ['reloadconfig', 'reloadconfig']
            if rng.random() < 0.25:
                # the built-in web console: one more managed socket, named
                # in no section of the file
                cfg['httpd'] = True
        ops = gen.gen_history(rng, cfg, n, reqs, None, quiet_p=0.6)
        out = []
        for op in ops:
            if op['op'] == 'req' and op['cmd'] == 'reloadconfig':
                op['w'] = None
                op['props'] = {}
                op['waiting'] = True
                if rng.random() < 0.5:
                    # the watcher sections changed meanwhile (never the
                    # sockets): a re-created or new watcher's first workers
                    # are a generation like any other
                    out.append({'op': 'c07edit', 'w': rng.randrange(8),
                                'kind': rng.choice(['change', 'add'])})
            out.append(op)
        if cfg.get('from_ini') and rng.random() < 0.25:
            # the file gains a socket, and a watcher that was there all
            # along is then told (set cmd) to hand it to its workers
            wi = rng.randrange(len(cfg['watchers']))
            wc = cfg['watchers'][wi]
            wc['opts']['use_sockets'] = True
            out.extend([
                {'op': 'c07edit', 'kind': 'addsocket', 'w': 0},
                {'op': 'req', 'cmd': 'reloadconfig', 'w': None, 'props': {},
                 'waiting': True, 'place': 'now'},
                {'op': 'wait', 'kind': 'replies'},
                {'op': 'req', 'cmd': 'set', 'w': wi, 'waiting': True,
                 'props': {'options': {'cmd': wc['cmd'] + ' --fd-extra='
                                       '$(circus.sockets.extra)'}},
                 'place': 'now'},
                {'op': 'wait', 'kind': 'replies'},
                {'op': 'quiet', 'checks': 1}])
        return {'cfg': cfg, 'ops': out}

    def run(self, case):
        ep = C07Episode(case)
        ep.run()
        nt = ep.probes.get('three_or_more_generations', 0) > 0
        return self.result(ep, nontrivial=nt)


PROP = C07()
