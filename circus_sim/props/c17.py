"""C17 - captured worker output is delivered complete, in order, once and
correctly labelled; closed pipes are dropped without spinning; no descriptor
leaks per worker generation."""
import gc
import math
import os

from .base import Prop
from ..lifecycle import Episode
from ..world import World
from .. import gen


_PERIOD = 256 * 90
_BASE = bytes(((i * 7 + (i >> 8)) % 90) for i in range(_PERIOD))
_TABLES = {}


def content(pid, ch, start, n):
    """deterministic, position-identifiable byte stream of (pid, channel)"""
    salt = (pid * 13 + (5 if ch == 'stderr' else 0)) % 90
    t = _TABLES.get(salt)
    if t is None:
        t = bytes(33 + ((b + salt) % 90) if b < 90 else b
                  for b in range(256))
        _TABLES[salt] = t
    out = []
    pos = start % _PERIOD
    left = n
    while left > 0:
        take = min(left, _PERIOD - pos)
        out.append(_BASE[pos:pos + take])
        left -= take
        pos = 0
    return b''.join(out).translate(t)


class Collector(object):
    def __init__(self, ep, label):
        self.ep = ep
        self.label = label

    def __call__(self, data):
        if self.ep.cfg.get('keeping_stream'):
            # a stream that keeps the mapping it is handed and looks at it
            # later (circus' own QueueStream does): every call must hand
            # over a mapping of its own
            self.ep.records.append((self.ep.world.sim.seq, self.label, data))
            return
        self.ep.records.append((self.ep.world.sim.seq, self.label,
                                data.get('pid'), data.get('name'),
                                bytes(data.get('data'))))

    def close(self):
        pass


class C17Episode(Episode):
    def setup(self):
        import circus.watcher
        from circus.stream.redirector import Redirector
        ep = self
        self.records = []
        self.handler_calls = {}      # (pid, name) -> calls
        self.calls_after_eof = {}
        self.eof_seen = set()
        self.writers = {}            # pid -> state
        bufsize = self.cfg.get('buffer', 1024)

        class CountingRedirector(Redirector):
            class Handler(Redirector.Handler):
                def __call__(self, fd, events):
                    key = (self.process.pid, self.name)
                    ep.handler_calls[key] = ep.handler_calls.get(key, 0) + 1
                    if key in ep.eof_seen:
                        ep.calls_after_eof[key] = \
                            ep.calls_after_eof.get(key, 0) + 1
                    n0 = len(ep.records)
                    # would this read block? (the real pipe is blocking)
                    import select as _select
                    # (poll: select() cannot take numbers above 1023)
                    _p = _select.poll()
                    _p.register(fd, _select.POLLIN | _select.POLLHUP)
                    rl = _p.poll(0)
                    if not rl:
                        ep.would_block.append((key, fd))
                    r = Redirector.Handler.__call__(self, fd, events)
                    if fd not in self.redirector._active and \
                            len(ep.records) == n0:
                        ep.eof_seen.add(key)
                        # the descriptor must have left the loop's reader set
                        try:
                            ep.world.loop._selector.get_key(fd)
                            ep.still_registered.append(key)
                        except (KeyError, ValueError):
                            pass
                    return r

            def __init__(self, stdout_redirect, stderr_redirect, buffer=1024,
                         loop=None):
                Redirector.__init__(self, stdout_redirect, stderr_redirect,
                                    buffer=bufsize, loop=loop)
        self.still_registered = []
        self.would_block = []
        self._orig_redirector = circus.watcher.Redirector
        circus.watcher.Redirector = CountingRedirector
        # helpers: descendants of a worker that hold its pipe open and keep
        # writing (a real concurrent process refills the pipe while the
        # daemon reads it: modelled at the os.read seam of the redirector)
        import sys as _sys
        import circus.stream.redirector as _rmod
        from ..zmqsim import ModProxy
        self.helpers = {}            # daemon-side read fd -> state
        self.flush_reads = {}        # (fd, loop step) -> reads by the flush
        self._orig_redir_os = _rmod.os
        real_read = os.read

        def sim_read(fd, n):
            data = real_read(fd, n)
            h = ep.helpers.get(fd)
            if h is not None and h['active'] and data and \
                    _sys._getframe(1).f_code.co_name == 'flush_redirections':
                key = (fd, ep.world.sim.steps)
                c = ep.flush_reads.get(key, 0) + 1
                ep.flush_reads[key] = c
                if c > ep.cfg.get('flush_read_bound', 10000):
                    ep.viol('flush_never_ends',
                            'flush_redirections() read descriptor %d (pid %d '
                            '%s) %d times within one event-loop step while '
                            'a helper process kept the pipe full: the loop '
                            'is stalled for as long as it writes'
                            % (fd, h['pid'], h['ch'], c), once='flood',
                            spin_in='flush_redirections')
                    h['active'] = False
                else:
                    ep.helper_fill(h)
            return data
        _rmod.os = ModProxy(os, read=sim_read)
        self.world = World(self.cfg)
        ws = []
        for wc in self.cfg['watchers']:
            wc = dict(wc)
            st = {}
            for ch in wc.get('channels', ['stdout', 'stderr']):
                if ch in (wc.get('stream_conf') or {}):
                    continue        # configured by file name (restream cases)
                st[ch] = Collector(self, ch)
            wc['streams'] = st
            ws.append(self.world.make_watcher(wc))
        self.world.build(watchers=ws)
        self.world.kernel.on_spawn = self.on_spawn
        self.world.hook_observer = self.on_hook
        self.hooked = set(wc['name'] for wc in self.cfg['watchers']
                          if 'after_spawn' in (wc.get('hooks') or {}))
        self.file_channels = dict(
            (wc.get('marker', wc['name']), set(wc.get('stream_conf') or ()))
            for wc in self.cfg['watchers'])
        if self.cfg.get('restream'):
            def on_reply(r, ent):
                if r.cmd == 'set' and isinstance(ent[5], dict) and \
                        ent[5].get('status') == 'ok':
                    pth = os.path.join(self.world.scratch_dir(),
                                       self.cfg['restream']['old'])
                    self.old_size_at_set = os.path.getsize(pth) \
                        if os.path.exists(pth) else 0
            self.world.reply_hooks.append(on_reply)
        if self.cfg.get('stdin_closed'):
            # a daemon started with descriptor 0 closed (circusd <&-, some
            # init systems) - as far as the workers' pipes are concerned:
            # the first one opened from now on is number 0
            try:
                self.saved0 = os.dup(0)
                os.close(0)
            except OSError:
                self.saved0 = None
        self.base_fds = None
        self.plans = dict((wc.get('marker', wc['name']), wc.get('plans', []))
                          for wc in self.cfg['watchers'])
        self.spawn_no = {}

    def resolve_props(self, op):
        props = super().resolve_props(op)
        o = (props or {}).get('options')
        if isinstance(o, dict):
            props['options'] = dict(
                (k, v.replace('@SCRATCH@', self.world.scratch_dir())
                 if isinstance(v, str) else v) for k, v in o.items())
        return props

    def fd_count(self):
        return len(os.listdir('/proc/self/fd'))

    # ------------------------------------------------------------- writers
    def on_spawn(self, p):
        plans = self.plans.get(p.marker) or []
        if not plans or self.world.kernel.fault_stopped:
            self.writers[p.pid] = {'written': {'stdout': 0, 'stderr': 0},
                                   'plan': [], 'self_exit': False}
            return
        i = self.spawn_no.get(p.marker, 0)
        self.spawn_no[p.marker] = i + 1
        plan = plans[i % len(plans)]
        st = {'written': {'stdout': 0, 'stderr': 0}, 'plan': plan,
              'self_exit': False, 'chunks': {'stdout': 0, 'stderr': 0},
              'closed': set()}
        self.writers[p.pid] = st
        t = 0.0
        sim = self.world.sim
        for step in plan['writes']:
            t += step[0]
            sim.after(t, lambda s=step, pid=p.pid: self.do_write(
                pid, s[1], s[2]), 'write')
        if plan.get('close'):
            ch, dt = plan['close']
            sim.after(t + dt, lambda pid=p.pid, ch=ch: self.do_close(pid, ch),
                      'write')
        if plan.get('exit') is not None:
            sim.after(t + plan['exit'], lambda pid=p.pid: self.do_exit(pid),
                      'write')
        if plan.get('boot'):
            # what the worker prints while it comes up: before the watcher's
            # after_spawn hook (a health check) has looked at it
            st['boot'] = list(plan['boot'])
            wname = [wc['name'] for wc in self.cfg['watchers']
                     if wc.get('marker', wc['name']) == p.marker]
            if not wname or wname[0] not in self.hooked:
                sim.after(0.0, lambda pid=p.pid: self.do_boot(pid), 'write')
        if plan.get('helper'):
            hp = plan['helper']
            sim.after(hp['at'], lambda pid=p.pid: self.start_helper(
                pid, hp['ch'], hp['life']), 'write')

    def do_boot(self, pid):
        st = self.writers.get(pid)
        if st is None:
            return
        for ch, size in st.pop('boot', []):
            self.do_write(pid, ch, size)

    def on_hook(self, wname, hook_name, out, kwargs):
        if hook_name == 'after_spawn' and kwargs.get('pid') in self.writers:
            self.do_boot(kwargs['pid'])
            if out != 'true':
                self.fired['worker_rejected_by_after_spawn'] += 1

    def pipe_of(self, p, ch):
        return p.stdout_w if ch == 'stdout' else p.stderr_w

    def do_write(self, pid, ch, size, tries=0):
        k = self.world.kernel
        p = k.procs.get(pid)
        st = self.writers.get(pid)
        if p is None or not p.alive or st is None or ch in st['closed']:
            return
        pe = self.pipe_of(p, ch)
        if pe is None or pe.closed:
            return
        start = st['written'][ch]
        data = content(pid, ch, start, size)
        try:
            n = os.write(pe.fd, data)
        except BlockingIOError:
            n = 0
        except OSError:
            return            # read end closed by the daemon (EPIPE)
        st['written'][ch] += n
        if n:
            st['chunks'][ch] += 1
            self.fired['bytes_written'] += n
        if n < size:
            # pipe full: the worker blocks and continues when it drains
            self.fired['pipe_full'] += 1
            tries = 0 if n else tries + 1
            if tries > 400:
                # nobody reads this pipe any more: the worker stays blocked
                st['blocked'] = True
                self.fired['writer_blocked_for_good'] += 1
                return
            self.world.sim.after(0.002 * (1 + tries // 20),
                                 lambda: self.do_write(pid, ch, size - n,
                                                       tries), 'write')

    def do_close(self, pid, ch):
        k = self.world.kernel
        p = k.procs.get(pid)
        st = self.writers.get(pid)
        if p is None or not p.alive or st is None:
            return
        pe = self.pipe_of(p, ch)
        if pe is not None and not pe.closed:
            pe.release()
            if ch == 'stdout':
                p.stdout_w = None
            else:
                p.stderr_w = None
            st['closed'].add(ch)
            self.fired['channel_closed_early'] += 1

    def do_exit(self, pid):
        k = self.world.kernel
        p = k.procs.get(pid)
        st = self.writers.get(pid)
        if p is None or not p.alive or st is None:
            return
        # a worker the daemon is already terminating does not count as
        # "exited by itself": the tail of its output may be cut like that of
        # any terminated worker
        st['self_exit'] = p.term_first is None
        self.fired['writer_self_exit'] += 1
        rq = st['plan'].get('exit_req')
        wname = [wc['name'] for wc in self.cfg['watchers']
                 if wc.get('marker', wc['name']) == p.marker]
        if rq and wname and not self.world.daemon_gone():
            # a request for the worker's watcher arrives together with the
            # worker's death: it is handled before the daemon has read the
            # pipe or reaped the worker
            props = dict(rq.get('props') or {}, name=wname[0])
            if rq['order'] == 'before':
                self.world.send(rq['cmd'], props, waiting=rq['waiting'])
            k.external_exit(pid, 0)
            if rq['order'] == 'after':
                self.world.send(rq['cmd'], props, waiting=rq['waiting'])
            self.fired['request_races_with_exit'] += 1
            return
        k.external_exit(pid, 0)

    # -------------------------------------------------------------- oracle
    def received(self):
        out = {}
        for rec in self.records:
            if len(rec) == 3:
                d = rec[2]
                rec = (rec[0], rec[1], d.get('pid'), d.get('name'),
                       bytes(d.get('data')))
            (seq, label, pid, name, data) = rec
            out.setdefault((pid, name), []).append((label, data))
        return out

    def check_safety(self):
        k = self.world.kernel
        for (pid, name), recs in self.received().items():
            st = self.writers.get(pid)
            if st is None or name not in ('stdout', 'stderr'):
                self.viol('record_with_unknown_origin',
                          'a record is tagged pid=%r name=%r, no such '
                          'writer/channel' % (pid, name), once=(pid, name))
                continue
            for label, data in recs:
                if label != name:
                    self.viol('record_on_wrong_stream',
                              'data tagged %s of pid %d was delivered to the '
                              '%s stream' % (name, pid, label),
                              once=(pid, name, 'l'))
            got = b''.join(d for (l, d) in recs)
            exp = content(pid, name, 0, len(got))
            if got != exp:
                # find what happened
                i = 0
                while i < len(got) and got[i] == exp[i]:
                    i += 1
                kind = 'beyond_written' if len(got) > st['written'][name] \
                    else 'corrupt_or_reordered'
                self.viol('output_not_a_prefix',
                          'pid %d %s: received bytes differ from what it '
                          'wrote at offset %d of %d (written %d)'
                          % (pid, name, i, len(got), st['written'][name]),
                          once=(pid, name), kind=kind)
            elif len(got) > st['written'][name]:
                self.viol('output_not_a_prefix', 'pid %d %s: received %d '
                          'bytes, wrote %d' % (pid, name, len(got),
                                               st['written'][name]),
                          once=(pid, name), kind='beyond_written')

    def check_complete(self):
        k = self.world.kernel
        rec = self.received()
        for pid, st in self.writers.items():
            p = k.procs.get(pid)
            if p is None:
                continue
            supervised = p.term_first is not None and not st['self_exit']
            ext = p.death_cause is not None and \
                (str(p.death_cause).startswith('ext:') or
                 (p.death_cause == 'exit' and not st['self_exit']))
            for ch in ('stdout', 'stderr'):
                w = st['written'][ch]
                if not w:
                    continue
                if ch in self.file_channels.get(p.marker, ()):
                    continue      # delivered to a file (judge_restream)
                if ch in st.get('flooded', ()):
                    # a helper kept writing while the daemon closed the
                    # pipe: only order / labelling are judged
                    self.probes['flooded_channels'] += 1
                    continue
                got = sum(len(d) for (l, d) in rec.get((pid, ch), []))
                self.probes['channels_checked'] += 1
                if got == w:
                    self.probes['channels_complete'] += 1
                    continue
                if p.alive or st['self_exit']:
                    why = 'running' if p.alive else 'exited by itself'
                    self.viol('output_lost',
                              'pid %d (%s) wrote %d bytes to %s, the stream '
                              'received %d' % (pid, why, w, ch, got),
                              once=(pid, ch),
                              writer='running' if p.alive else 'self_exited',
                              closer=self.closer(pid))
                elif supervised:
                    # what a worker wrote while it was running is owed to the
                    # stream also when the daemon terminates it afterwards:
                    # everything the pipe accepted was written before the
                    # daemon closed its end
                    self.probes['tail_lost_of_terminated_worker'] += 1
                    self.viol('output_lost',
                              'pid %d (terminated by the daemon) wrote %d '
                              'bytes to %s before the daemon closed the pipe, '
                              'the stream received %d' % (pid, w, ch, got),
                              once=(pid, ch), writer='terminated',
                              closer=self.closer(pid))
                elif ext:
                    self.probes['tail_lost_of_externally_killed_worker'] += 1

    def closer(self, pid):
        for wt in self.world.arbiter.watchers:
            for (q, who) in getattr(wt.processes, 'removed', []):
                if q == pid:
                    return who
        return None

    def check_eof_and_spin(self):
        buf = self.cfg.get('buffer', 1024)
        for key, fd in self.would_block[:1]:
            self.viol('handler_read_would_block',
                      'handler of pid %d %s was invoked for descriptor %d '
                      'with nothing to read: os.read() on the (blocking) pipe '
                      'would hang the daemon' % (key[0], key[1], fd),
                      once='wb')
        for key in self.still_registered:
            self.viol('fd_still_watched_after_eof', 'pid %d %s: descriptor '
                      'still in the reader set after end-of-file' % key,
                      once=key)
        for key, n in self.calls_after_eof.items():
            self.viol('handler_invoked_after_eof', 'pid %d %s: handler '
                      'invoked %d times after it read end-of-file'
                      % (key[0], key[1], n), once=key)
        for (pid, name), n in self.handler_calls.items():
            st = self.writers.get(pid)
            if st is None or 'chunks' not in st:
                continue
            bound = st['chunks'][name] + int(math.ceil(
                st['written'][name] / float(buf))) + 2
            if n > bound:
                self.viol('handler_spins', 'pid %d %s: handler invoked %d '
                          'times for %d chunks / %d bytes (bound %d)'
                          % (pid, name, n, st['chunks'][name],
                             st['written'][name], bound), once=(pid, name))

    def check_leak(self):
        w = self.world
        gc.collect()
        k = w.kernel
        live_fds = set()
        for wt in w.arbiter.watchers:
            r = wt.stream_redirector
            for p in wt.processes.values():
                for f in (p.stdout, p.stderr):
                    if f is not None and not f.closed:
                        live_fds.add(f.fileno())
            if r is not None:
                extra = (set(r.pipes) | set(r._active)) - live_fds
                if extra:
                    self.viol('redirector_keeps_dead_pipes',
                              '%s: redirector still holds descriptors %s of '
                              'workers that are gone' % (wt.name,
                                                         sorted(extra)),
                              once=wt.name)
        # descriptors owned by the daemon itself = all open descriptors minus
        # the simulated workers' write ends minus the read ends of workers
        # that are still alive; this must be what it was after start-up
        other, dead_open = self.fd_accounting()
        self.probes['leak_checked'] += 1
        if dead_open:
            self.viol('pipe_of_dead_worker_left_open',
                      'read ends %s of workers that are gone are still open'
                      % dead_open, once='deadpipe')
        if other < self.base_fds['other']:
            # something that was still open when the start-up count was taken
            # (a worker rejected during the start whose pipes were closed a
            # moment later) is gone: fewer is no leak, and the new baseline
            self.probes['descriptor_baseline_lowered'] += 1
            self.base_fds['other'] = other
        if other > self.base_fds['other']:
            self.viol('descriptor_leak',
                      'the daemon owns %d descriptors besides the pipes of '
                      'live workers, %d after start-up' %
                      (other, self.base_fds['other']), once='leak')

    def fd_accounting(self):
        k = self.world.kernel
        total = self.fd_count()
        wends = 0
        live_r = 0
        dead_open = []
        seen = set()
        for h in getattr(self, 'helpers', {}).values():
            pe = h['pe']
            if pe is not None and not pe.closed and id(pe) not in seen:
                seen.add(id(pe))
                wends += 1
        for p in k.procs.values():
            for pe in (p.stdout_w, p.stderr_w):
                if pe is not None and not pe.closed and id(pe) not in seen:
                    seen.add(id(pe))
                    wends += 1
            po = p.popen
            if po is None:
                continue
            for f in (po.stdout, po.stderr):
                if f is not None and not f.closed:
                    if p.alive:
                        live_r += 1
                    else:
                        dead_open.append((p.pid, f.fileno()))
                        live_r += 1
        return total - wends - live_r, dead_open

    def started(self):
        gc.collect()
        other, _ = self.fd_accounting()
        self.base_fds = {'other': other}
        self.on_quiet.append(C17Episode.at_quiet)

    def at_quiet(self):
        self.check_safety()

    def judge_restream(self):
        """a stream option changed at run time (set stdout_stream.filename):
        from then on the channel's output belongs to the newly configured
        stream - also for the worker generations started later"""
        rs = self.cfg.get('restream')
        if not rs:
            return
        w = self.world
        d = w.scratch_dir()
        sets = [r for r in w.reqs if r.cmd == 'set' and r.replies and
                isinstance(r.reply, dict) and r.reply.get('status') == 'ok']
        if not sets:
            return
        r = sets[-1]
        k = w.kernel
        marker = self.cfg['watchers'][0].get('marker')
        new_gen = [p for p in k.spawns if p.marker == marker and
                   p.spawn_seq > r.done_seq]
        owed = sum(self.writers.get(p.pid, {}).get('written', {}).get(
            'stdout', 0) for p in new_gen)
        new_path = os.path.join(d, rs['new'])
        old_path = os.path.join(d, rs['old'])
        got_new = os.path.getsize(new_path) if os.path.exists(new_path) else 0
        got_old = os.path.getsize(old_path) if os.path.exists(old_path) else 0
        self.probes['restream_checked'] += 1
        if new_gen and owed:
            self.probes['restream_new_generation'] += 1
        if got_old > getattr(self, 'old_size_at_set', got_old):
            self.viol('output_to_stream_no_longer_configured',
                      'stdout_stream.filename was changed to %s at run time; '
                      'the old file grew from %d to %d bytes afterwards'
                      % (rs['new'], self.old_size_at_set, got_old),
                      once='restream')
        elif got_new < owed:
            self.viol('output_lost',
                      'workers started after stdout_stream.filename was set '
                      'to %s wrote %d bytes, the file holds %d'
                      % (rs['new'], owed, got_new), once='restream2',
                      writer='new_generation', closer='restream')

    def final(self):
        for h in self.helpers.values():
            self.stop_helper(h)
        self.judge_restream()
        self.check_safety()
        self.check_complete()
        self.check_eof_and_spin()
        # stop everything that still writes, then look for leaks
        self.check_leak()

    def run(self):
        import circus.watcher
        import circus.stream.redirector as _rmod
        filler = []
        if self.cfg.get('high_fds'):
            # a daemon that holds a lot of descriptors (sockets, hundreds of
            # workers): every pipe of this run gets a number above 1023
            fd = os.open(os.devnull, os.O_RDONLY)
            filler.append(fd)
            while fd < 1030:
                fd = os.dup(fd)
                filler.append(fd)
        self.saved0 = None
        try:
            return super().run()
        finally:
            if self.saved0 is not None:
                try:
                    os.dup2(self.saved0, 0)
                    os.close(self.saved0)
                except OSError:
                    pass
            for fd in filler:
                try:
                    os.close(fd)
                except OSError:
                    pass
            circus.watcher.Redirector = self._orig_redirector
            if getattr(self, '_orig_redir_os', None) is not None:
                _rmod.os = self._orig_redir_os
            for h in getattr(self, 'helpers', {}).values():
                if h['pe'] is not None:
                    h['pe'].release()
                    h['pe'] = None

    # ------------------------------------------------------------- helpers
    def start_helper(self, pid, ch, lifetime):
        k = self.world.kernel
        p = k.procs.get(pid)
        st = self.writers.get(pid)
        if p is None or not p.alive or st is None:
            return
        pe = self.pipe_of(p, ch)
        f = getattr(p.popen, ch, None) if p.popen is not None else None
        if pe is None or pe.closed or f is None or f.closed:
            return
        h = {'pid': pid, 'ch': ch, 'pe': pe.acquire(), 'active': True}
        self.helpers[f.fileno()] = h
        st.setdefault('flooded', set()).add(ch)
        self.fired['helper_floods_pipe'] += 1
        self.helper_fill(h)
        self.helper_tick(h)
        self.world.sim.after(lifetime, lambda: self.stop_helper(h), 'write')

    def helper_fill(self, h):
        """the helper writes until the pipe is full again"""
        st = self.writers.get(h['pid'])
        pe = h['pe']
        if st is None or pe is None or pe.closed:
            h['active'] = False
            return
        for _ in range(80):
            start = st['written'][h['ch']]
            data = content(h['pid'], h['ch'], start, 4096)
            try:
                n = os.write(pe.fd, data)
            except BlockingIOError:
                return
            except OSError:
                h['active'] = False      # the daemon closed its end
                return
            st['written'][h['ch']] += n
            if 'chunks' in st:
                st['chunks'][h['ch']] += 1
            self.fired['bytes_written'] += n
            if n < len(data):
                return

    def helper_tick(self, h):
        if not h['active']:
            return
        self.helper_fill(h)
        self.world.sim.after(0.05, lambda: self.helper_tick(h), 'write')

    def stop_helper(self, h):
        h['active'] = False
        if h['pe'] is not None:
            h['pe'].release()
            h['pe'] = None


def gen_plan(rng, big=False):
    writes = []
    n = rng.choice([1, 2, 4, 8, 16])
    for _ in range(n):
        size = rng.choice([1, 7, 16, 17, 100, 1024, 1025, 4096, 5000]
                          + ([20000, 65536, 70000] if big else []))
        writes.append([rng.choice([0.0, 0.0, 0.001, 0.01, 0.1, 0.5]),
                       rng.choice(['stdout', 'stdout', 'stderr']), size])
    plan = {'writes': writes}
    if rng.random() < 0.12:
        # a descendant that inherited the pipe, outlives the worker for a
        # while and writes as fast as the pipe takes it
        plan['helper'] = {'ch': rng.choice(['stdout', 'stderr']),
                          'at': rng.choice([0.0, 0.05, 0.3]),
                          'life': rng.choice([0.5, 1.5, 3.0])}
    x = rng.random()
    if x < 0.25:
        plan['close'] = [rng.choice(['stdout', 'stderr']),
                         rng.choice([0.0, 0.01, 0.3])]
    elif x < 0.55:
        plan['exit'] = rng.choice([0.0, 0.0, 0.001, 0.05, 0.6])
        if rng.random() < 0.25:
            plan['exit_req'] = {
                'cmd': rng.choice(['stop', 'restart', 'reload', 'reload']),
                'order': rng.choice(['before', 'after']),
                'waiting': rng.random() < 0.5}
            if plan['exit_req']['cmd'] == 'reload':
                plan['exit_req']['props'] = {'graceful': rng.random() < 0.5}
    return plan


class C17(Prop):
    id = 'C17'
    level = 'exploration'
    rule = ('one case = 1-2 watchers with collecting stdout/stderr streams, '
            'Redirector buffer 16/1024/4096, 1-4 concurrent writer workers on '
            'real os.pipe pairs and a real epoll (in 6 % of the cases with '
            'descriptor numbers above 1023); each worker follows a write '
            'plan (chunk sizes 1 B .. 70 kB incl. sizes around the buffer and '
            'the pipe capacity, delays, optional early channel close, '
            'optional exit right after the last write, in a quarter of those '
            'a stop / restart / reload of its watcher arriving in the same '
            'instant) with position-'
            'identifiable content; history of sibling kills, restarts of '
            'other workers, incr/decr; step cost > 0 in half of the runs so '
            'that draining spans periodic checks. non-trivial = a run with '
            'pipe-full back-pressure, an early close, a writer self-exit or '
            'a sibling kill; distinct = (event kind, abstract daemon state) '
            'sequence hash')
    chunk = 40
    budget = {'quick': 40, 'thorough': 900}
    episode_timeout = 300
    components = dict(Prop.components)
    components = {'real': Prop.components['real'] + [
        'circus.stream.redirector.Redirector (subclassed only to count '
        'handler invocations)', 'worker stdout/stderr pipes (real os.pipe)',
        'selectors.EpollSelector on those descriptors'],
        'stub': Prop.components['stub'] + ['the writing worker (the '
                                           'scheduler writes into the pipe)']}

    def gen_restream(self, rng, tier, seed):
        """the stream of a channel is re-configured at run time, then the
        watcher is restarted / reloaded / stopped and started"""
        cfg = gen.gen_base_cfg(rng, seed, nwatch=(1,), numproc=(1, 2, 3),
                               singleton_p=0.0, kinds=('obedient',),
                               grace=[0.05, 0.25], warmup=[0, 0.05])
        cfg['buffer'] = rng.choice([1024, 4096])
        cfg['max_steps'] = 300000
        cfg['check_delay'] = rng.choice([0.3, 1.0])
        cfg['restream'] = {'old': 'out1.log', 'new': 'out2.log'}
        wc = cfg['watchers'][0]
        wc['plans'] = [{'writes': [[rng.choice([0.0, 0.05, 0.2]), 'stdout',
                                    rng.choice([7, 100, 1025, 5000])]
                                   for _ in range(rng.choice([1, 2, 4]))]}]
        wc['channels'] = ['stdout', 'stderr']
        wc['stream_conf'] = {'stdout': {'filename': '@SCRATCH@/out1.log'}}
        ops = [{'op': 'wait', 'kind': 'time', 'n': rng.choice([0.1, 0.6])},
               {'op': 'req', 'cmd': 'set', 'w': 0, 'waiting': True,
                'props': {'options': {'stdout_stream.filename':
                                      '@SCRATCH@/out2.log'}},
                'place': 'now', 'sync': True},
               {'op': 'wait', 'kind': 'time', 'n': rng.choice([0.0, 0.3])}]
        nxt = rng.choice(['restart', 'reload_hard', 'stopstart', 'incr'])
        if nxt == 'restart':
            ops.append({'op': 'req', 'cmd': 'restart', 'w': 0, 'props': {},
                        'waiting': True, 'place': 'now', 'sync': True})
        elif nxt == 'reload_hard':
            ops.append({'op': 'req', 'cmd': 'reload', 'w': 0,
                        'props': {'graceful': False}, 'waiting': True,
                        'place': 'now', 'sync': True})
        elif nxt == 'stopstart':
            ops.append({'op': 'req', 'cmd': 'stop', 'w': 0, 'props': {},
                        'waiting': True, 'place': 'now', 'sync': True})
            ops.append({'op': 'req', 'cmd': 'start', 'w': 0, 'props': {},
                        'waiting': True, 'place': 'now', 'sync': True})
        else:
            ops.append({'op': 'req', 'cmd': 'incr', 'w': 0,
                        'props': {'nb': 2}, 'waiting': True, 'place': 'now',
                        'sync': True})
        ops.append({'op': 'wait', 'kind': 'time', 'n': 1.5})
        return {'cfg': cfg, 'ops': ops}

    def gen(self, rng, tier, seed):
        if rng.random() < 0.06:
            return self.gen_restream(rng, tier, seed)
        cfg = gen.gen_base_cfg(rng, seed, nwatch=(1, 1, 2),
                               numproc=(1, 2, 2, 3, 4), singleton_p=0.0,
                               kinds=('obedient',), grace=[0.05, 0.25],
                               warmup=[0, 0.05])
        cfg['buffer'] = rng.choice([16, 1024, 1024, 4096])
        if rng.random() < 0.06:
            cfg['high_fds'] = True
        elif rng.random() < 0.05:
            cfg['stdin_closed'] = True
        if rng.random() < 0.3:
            # streams that keep the mapping they are handed (QueueStream)
            cfg['keeping_stream'] = True
        cfg['max_steps'] = 300000
        cfg['step_cost'] = rng.choice([0.0, 0.0, 1e-4, 1e-3, 5e-3])
        cfg['check_delay'] = rng.choice([0.3, 1.0, 5.0])
        big = rng.random() < (0.3 if tier == 'quick' else 0.5)
        for wc in cfg['watchers']:
            wc['plans'] = [gen_plan(rng, big) for _ in range(rng.choice(
                [1, 2, 4]))]
            if any(pl.get('helper') for pl in wc['plans']):
                # the flush before a pipe is closed is bounded by bytes
                # (1 MiB): keep the number of reads that means small
                cfg['buffer'] = max(cfg['buffer'], 1024)
                cfg['flush_read_bound'] = 3000
            wc['channels'] = rng.choice([['stdout', 'stderr'],
                                         ['stdout', 'stderr'], ['stdout']])
        if rng.random() < 0.12:
            # a health check (after_spawn hook) that rejects some workers
            # after they have printed why they cannot come up
            for wc in cfg['watchers']:
                wc['hooks'] = {'after_spawn': {
                    'script': [rng.choice(['true', 'true', 'false', 'raise'])
                               for _ in range(8)], 'ignore': False}}
                for pl in wc['plans']:
                    pl['boot'] = [[rng.choice(wc['channels']),
                                   rng.choice([20, 100, 1025, 5000])]
                                  for _ in range(rng.choice([1, 2]))]
        nw = len(cfg['watchers'])
        ops = []
        n = rng.choice([0, 1, 2, 4]) if tier == 'quick' else \
            rng.choice([2, 4, 8, 16])
        for _ in range(n):
            x = rng.random()
            if x < 0.4:
                ops.append({'op': 'req', 'cmd': 'kill', 'w': rng.randrange(nw),
                            'props': {'pid': {'w': rng.randrange(nw),
                                              'j': rng.randrange(4)}},
                            'waiting': False,
                            'place': gen.gen_place(rng, False)})
            elif x < 0.6:
                ops.append(gen.gen_request(rng, nw, rng.choice(
                    ['incr', 'decr', 'incr', 'decr', 'reload', 'restart',
                     'stop', 'start']), place=gen.gen_place(rng, False)))
            elif x < 0.75:
                ops.append(gen.gen_death(rng, nw, inflight=False))
            else:
                ops.append({'op': 'wait', 'kind': 'time',
                            'n': rng.choice([0.05, 0.3, 1.0])})
        ops.append({'op': 'wait', 'kind': 'time', 'n': rng.choice([0.5, 2])})
        return {'cfg': cfg, 'ops': ops}

    def run(self, case):
        ep = C17Episode(case)
        ep.run()
        nt = ep.fired.get('pipe_full', 0) or \
            ep.fired.get('channel_closed_early', 0) or \
            ep.fired.get('writer_self_exit', 0) or ep.fired.get('req:kill', 0)
        return self.result(ep, nontrivial=bool(nt))


PROP = C17()
