"""C13 - each worker runs exactly the configured command line, environment
and directory; worker ids are positive, start at 1 and are unique."""
import os
import re
import shlex

from .base import Prop
from ..lifecycle import Episode
from .. import gen

_REF = re.compile(r'\$\(circus\.([\w.\-]+)\)|\(\(circus\.([\w.\-]+)\)\)',
                  re.I)


def ref_subst(s, wid, env):
    """independent reading of the documented substitution"""
    low = dict((k.lower(), v) for k, v in (env or {}).items())

    def rep(m):
        name = (m.group(1) or m.group(2)).lower()
        if name == 'wid':
            return str(wid)
        if name.startswith('env.') and name[4:] in low:
            return str(low[name[4:]])
        return m.group(0)
    return _REF.sub(rep, s)


def ref_argv(cmd, args, shell, wid, env):
    argv = shlex.split(ref_subst(cmd, wid, env))
    if args is not None:
        if isinstance(args, str):
            argv += shlex.split(ref_subst(args, wid, env))
        else:
            argv += [ref_subst(a, wid, env) for a in args]
    if shell:
        argv = [' '.join(shlex.quote(a) for a in argv)]
    return argv


class C13Episode(Episode):
    def setup(self):
        super().setup()
        self.world.kernel.on_spawn = self.on_spawn
        self.spec = dict((wc.get('marker', wc['name']), wc)
                         for wc in self.cfg['watchers'])
        self.first_wid = {}
        self.on_quiet.append(C13Episode.check_wids)
        self.world.dispatch_hooks.append(self.on_dispatched)

    CONF_KEYS = ('env', 'args', 'working_dir', 'cmd')

    def apply_set(self, r):
        """an accepted set request changes what is configured from the
        instant it is applied (before it restarts the workers)"""
        if r is None or r.cmd != 'set' or r.meta.get('c13_applied') or \
                r.wname is None:
            return
        opts = (r.props or {}).get('options')
        if not isinstance(opts, dict):
            return
        r.meta['c13_applied'] = True
        for wc in self.cfg['watchers']:
            if wc['name'].lower() != r.wname.lower():
                continue
            for k, v in opts.items():
                if k == 'cmd':
                    wc['cmd'] = v
                elif k in self.CONF_KEYS:
                    wc['opts'][k] = v
                    self.probes['configuration_changed_by_set'] += 1

    def on_dispatched(self, r):
        if r.cmd == 'set' and r.accepted:
            self.apply_set(r)

    @staticmethod
    def wid_of(argv):
        for a in argv if isinstance(argv, (list, tuple)) else [argv]:
            m = re.search(r'--wid=(\S+)', a)
            if m:
                return m.group(1).strip('\'"')
        return None

    def on_spawn(self, p):
        d = self.world.dispatching
        if d is not None and d.cmd == 'set':
            # spawned inside the dispatch of a set request: by that request
            self.apply_set(d)
        wc = self.spec.get(p.marker)
        if wc is None and p.orig_parent == self.world.kernel.getpid_value:
            # every generated command line carries --marker=<watcher>: a
            # worker without it was started with a mangled argument vector
            self.viol('argv_differs',
                      'worker %d was started with argv %r: the --marker '
                      'argument every configured command line carries is '
                      'missing' % (p.pid, p.argv), once=('nomarker',),
                      part='marker_lost')
        if wc is None:
            return
        o = wc['opts']
        argv = p.argv
        wid_s = self.wid_of(argv)
        try:
            wid = int(wid_s)
        except (TypeError, ValueError):
            self.viol('wid_not_substituted', 'worker %d argv %r: worker id '
                      'not substituted' % (p.pid, argv), once=p.marker)
            return
        p.wid = wid
        self.probes['spawns_checked'] += 1
        # unique among the workers of the watcher that are alive right now
        # (a worker in its grace period is still alive)
        doomed = set(e['pid'] for e in self.world.kernel.signals
                     if e['sig'] == 9 and e['effect'] in ('will-die', 'died'))
        others = [q for q in self.world.kernel.live_by_marker(p.marker)
                  if q.pid != p.pid and q.wid == wid and
                  q.pid not in doomed]      # SIGKILLed: only the simulated
        #                                     death latency keeps it listed
        if others:
            self.viol('duplicate_wid', 'worker %d of %s gets id %d while '
                      'worker %d with the same id is still alive' %
                      (p.pid, wc['name'], wid, others[0].pid), once=p.marker)
        if wid < 1:
            self.viol('wid_not_positive', 'worker %d got id %d' %
                      (p.pid, wid), once=p.pid)
        if p.marker not in self.first_wid:
            self.first_wid[p.marker] = wid
            if wid != 1:
                self.viol('first_wid_not_one', 'first worker of %s got id %d'
                          % (wc['name'], wid), once=p.marker)
        env_conf = o.get('env')
        if o.get('copy_env'):
            exp_env = dict(os.environ)
            exp_env.update(env_conf or {})
        else:
            exp_env = dict(env_conf or {})
        try:
            exp = ref_argv(wc['cmd'], o.get('args'), o.get('shell', False),
                           wid, exp_env)
        except ValueError:
            return
        if list(argv) != exp:
            self.viol('argv_differs', 'worker %d of %s: argv %r, documented '
                      'reading of cmd=%r args=%r shell=%r gives %r'
                      % (p.pid, wc['name'], argv, wc['cmd'], o.get('args'),
                         o.get('shell', False), exp), once=p.marker,
                      shell=bool(o.get('shell', False)),
                      args_kind=type(o.get('args')).__name__)
        if p.kw.get('shell') != bool(o.get('shell', False)):
            self.viol('shell_flag_differs', 'worker %d: shell=%r' %
                      (p.pid, p.kw.get('shell')), once=p.marker)
        got_env = p.kw.get('env')
        if dict(got_env or {}) != exp_env:
            d = set((got_env or {}).items()) ^ set(exp_env.items())
            self.viol('env_differs', 'worker %d of %s: environment differs in '
                      '%r' % (p.pid, wc['name'], sorted(d)[:4]),
                      once=p.marker, copy_env=bool(o.get('copy_env')))
        exp_cwd = o.get('working_dir') or self.default_cwd
        if p.kw.get('cwd') != exp_cwd:
            self.viol('cwd_differs', 'worker %d: cwd %r, configured %r' %
                      (p.pid, p.kw.get('cwd'), exp_cwd), once=p.marker)

    def check_wids(self):
        k = self.world.kernel
        for m in self.spec:
            live = k.live_by_marker(m)
            wids = [p.wid for p in live if p.wid is not None]
            if len(set(wids)) != len(wids):
                self.viol('duplicate_wid', 'live workers of %s have ids %s'
                          % (m, sorted(wids)), once=m)
            if len(wids) > 1:
                self.probes['wid_uniqueness_checked'] += 1

    def run(self):
        import circus.util
        self.default_cwd = circus.util.get_working_dir()
        return super().run()


WORDS = ['abc', '--opt=val', 'x', '-v', 'a.b', 'path/to/file', '100%', 'a$b',
         '$HOME', '$$', '{curly}', 'semi;colon', 'eq=', 'ünï',
         # the deprecated spelling of the worker id, and what merely begins
         # like it: literal dollars all of them
         '$WID', '$WIDTH', 'x$WIDGET',
         # characters that mean something to a shell or to shlex options
         # other than the documented ones (comments, globbing, pipes)
         '--colour=#fff', '#', 'url#frag', '*.log', 'a|b', '&', '~user',
         'back`tick`', '!bang', 'tab\there']
QUOTED = ["'two words'", '"dq words"', 'esc\\ aped', "'it''s'", '"a \'b\' c"',
          "''", '"$(circus.wid)"', "'((circus.wid)) x'"]
REFS = ['$(circus.wid)', '((circus.wid))', '$(CIRCUS.WID)', '((Circus.Wid))',
        '$(circus.env.FOO)', '((circus.env.foo))', '$(CIRCUS.ENV.Bar_9)',
        'pre-$(circus.wid)-post', '$(circus.env.FOO)/$(circus.wid)']
UNKNOWN = ['$(circus.bogus_zz)', '((circus.nope.x))', '$(other.thing)',
           '$(circus.env.MISSING)', '((circus.env.nokey))', '$(circus)',
           # variables of the daemon's own environment: unknown to a watcher
           # that does not copy it
           '$(circus.env.PATH)', '((circus.env.home))',
           '$(circus.)', '$circus.wid', '$(circus.wid']


def gen_tokens(rng, n):
    out = []
    for _ in range(n):
        x = rng.random()
        if x < 0.35:
            out.append(rng.choice(WORDS))
        elif x < 0.55:
            out.append(rng.choice(QUOTED))
        elif x < 0.8:
            out.append(rng.choice(REFS))
        else:
            out.append(rng.choice(UNKNOWN))
    return out


class C13(Prop):
    id = 'C13'
    level = 'exploration'
    rule = ('one case = 1-3 watchers whose cmd / args come from a token '
            'grammar (words, single/double quotes, escaped blanks, circus.wid '
            'and circus.env.X references in both syntaxes and any letter '
            '(env, args, working_dir and cmd also changed at run time by set '
            'requests) '
            'case, unknown references, literal dollars; args as string or as '
            'list; shell on/off; env with/without copy_env; working_dir) + a '
            'history of deaths, incr, decr, reload, restart. every simulated '
            'process creation is compared with an independent reading of the '
            'documented rules; worker ids read back from argv. non-trivial = '
            'a fault fired while an operation was in flight; distinct = '
            '(event kind, abstract daemon state) sequence hash')
    chunk = 150
    REQS = ['incr', 'decr', 'reload', 'restart', 'set', 'kill']
    budget = {'quick': 30, 'thorough': 600}

    def gen_ini(self, rng, tier, seed):
        """the environment as a configuration file builds it: a global [env]
        section, [env:NAME] sections for some of the watchers, copy_env on
        or off - each worker gets exactly its own"""
        cfg = gen.gen_base_cfg(rng, seed, nwatch=(2, 3, 3),
                               kinds=('obedient', 'selfexit'),
                               grace=[0.05, 0.25], warmup=[0],
                               singleton_p=0.0)
        cfg['from_ini'] = True
        cfg['warmup_delay'] = 0
        genv = rng.choice([None, {'GLOBAL': 'g1'},
                           {'GLOBAL': 'g1', 'FOO': 'global foo'}])
        if genv:
            cfg['ini_global_env'] = genv
        for i, wc in enumerate(cfg['watchers']):
            o = wc['opts']
            o['warmup_delay'] = 0
            if rng.random() < 0.5:
                o['copy_env'] = True
            sec = None
            if rng.random() < 0.6:
                sec = {'ONLY_%d' % i: 'v%d' % i}
                if rng.random() < 0.4:
                    sec['FOO'] = 'foo of %d' % i
                wc['ini_env_section'] = sec
            merged = dict(genv or {})
            merged.update(sec or {})
            # what the oracle compares with (not written as an option)
            o['env'] = merged
            wc['cmd'] = 'prog%d --marker=%s --wid=$(circus.wid)' % (
                i, wc['marker'])
        n = rng.choice([1, 2, 4])
        ops = gen.gen_history(rng, cfg, n, ['incr', 'restart', 'reload'],
                              None, quiet_p=0.6)
        return {'cfg': cfg, 'ops': ops}

    def gen(self, rng, tier, seed):
        if rng.random() < 0.12:
            return self.gen_ini(rng, tier, seed)
        cfg = gen.gen_base_cfg(rng, seed, kinds=('obedient', 'selfexit',
                                                 'slow', 'stubborn'),
                               grace=[0, 0.05, 0.25, 1.0],
                               warmup=[0, 0, 0.05], singleton_p=0.05)
        depth = 4 if tier == 'quick' else 6
        for i, wc in enumerate(cfg['watchers']):
            o = wc['opts']
            env = None
            if rng.random() < 0.7:
                env = {'FOO': rng.choice(['foo', 'two words', '/p/a', '1']),
                       'Bar_9': rng.choice(['bar', 'x y z', ''])}
                if rng.random() < 0.3:
                    env['EXTRA'] = 'e'
            if env is not None:
                o['env'] = env
            if rng.random() < 0.3:
                o['copy_env'] = True
            cmdtok = ['prog%d' % i] + gen_tokens(rng, rng.randrange(0, depth))
            tail = cmdtok[1:] + ['--marker=%s' % wc['marker'],
                                 '--wid=$(circus.wid)']
            if rng.random() < 0.5:
                rng.shuffle(tail)
            wc['cmd'] = ' '.join(cmdtok[:1] + tail)
            r = rng.random()
            if r < 0.35:
                o['args'] = ' '.join(gen_tokens(rng, rng.randrange(1, depth)))
            elif r < 0.7:
                lst = []
                for t in gen_tokens(rng, rng.randrange(1, depth)):
                    lst.append(rng.choice([t, t + ' tail', 'a "b" ' + t]))
                o['args'] = lst
            if rng.random() < 0.25:
                o['shell'] = True
            if rng.random() < 0.4:
                o['working_dir'] = rng.choice(['/', '/tmp', '/var/tmp'])
        n = rng.choice([1, 2, 4, 6]) if tier == 'quick' else \
            rng.choice([3, 6, 10, 20])
        ops = gen.gen_history(rng, cfg, n, self.REQS, None, quiet_p=0.6,
                              second_req_kinds=['incr', 'kill', 'reload'])
        cur = dict((i, wc['cmd']) for i, wc in enumerate(cfg['watchers']))
        for op in ops:
            if op['op'] != 'req' or op['cmd'] != 'set' or \
                    rng.random() > 0.4:
                continue
            # the configuration changed at run time: the workers started
            # from then on run the new one
            wi = op['w']
            wc = cfg['watchers'][wi]
            key = rng.choice(['env', 'env', 'args', 'working_dir', 'cmd'])
            if key == 'env' and wc['opts'].get('copy_env'):
                key = 'args'
            if key == 'env':
                val = {'FOO': rng.choice(['foo2', 'second value', '/q']),
                       'Bar_9': rng.choice(['bar2', '', 'y'])}
                if rng.random() < 0.3:
                    val['NEW'] = 'n'
            elif key == 'args':
                val = ' '.join(gen_tokens(rng, rng.randrange(1, depth)))
            elif key == 'working_dir':
                val = rng.choice(['/', '/tmp', '/var/tmp', '/usr'])
            else:
                cur[wi] = val = cur[wi] + ' --v%d' % rng.randrange(100)
            op['props'] = {'options': {key: val}}
        return {'cfg': cfg, 'ops': ops}

    def run(self, case):
        ep = C13Episode(case)
        ep.run()
        return self.result(ep)


PROP = C13()
