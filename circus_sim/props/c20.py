"""C20 - log files rotate by size without losing or reordering retained data.

A single-caller surface: its 'history' is durable state (pre-existing files,
close / re-open / daemon restart) and its clock is virtual; storage is a real
scratch directory.  No disk faults are injected: the statement promises
nothing under them."""
import hashlib
import itertools
import errno
import os
import re
import shutil
import sys
import tempfile
from datetime import datetime, timedelta

from .base import Prop

REPO = os.environ.get('VERIF_REPO', '/repo')
if REPO not in sys.path[:1]:
    sys.path.insert(0, REPO)

TIME_FORMAT = '%Y-%m-%d %H:%M:%S'
BASE_T = datetime(2026, 1, 2, 3, 4, 5)


def formatted(chunk, time_format, pid, now):
    """the text the documentation says is written for one chunk"""
    s = chunk if isinstance(chunk, str) else chunk.decode('utf8', 'replace')
    if time_format is not None:
        prefix = '%s [%s] | ' % (now.strftime(time_format), pid)
        body = s.rstrip('\n')
        s = prefix + body.replace('\n', '\n' + prefix) + '\n'
    try:
        s.encode('utf8')
    except UnicodeEncodeError:
        # text the file's codec cannot take (a lone surrogate): what is
        # written is not promised - the stream falls back to a lossy
        # single-byte rendering of the whole chunk; the bounds hold
        s = s.encode('latin-1', errors='replace').decode('latin-1')
    return s


class _FaultyOs(object):
    """os as circus.stream.file_stream sees it during one write: the n-th
    call of rename / remove fails once (a transient disk error inside the
    rollover)"""

    def __init__(self, real, fn, n):
        self._real, self._fn, self._n = real, fn, n
        self.calls = 0
        self.fired = False

    def __getattr__(self, name):
        return getattr(self._real, name)

    def _call(self, name, *a):
        if name == self._fn:
            self.calls += 1
            if self.calls == self._n:
                self.fired = True
                raise OSError(errno.EIO, 'Input/output error (simulated)')
        return getattr(self._real, name)(*a)

    def rename(self, *a):
        return self._call('rename', *a)

    def remove(self, *a):
        return self._call('remove', *a)


class _FaultyFile(object):
    """the stream's file object during one write: the first flush() fails
    (ENOSPC) and - as with a real buffered file - what was written stays in
    the buffer and reaches the disk with the next successful flush"""

    def __init__(self, f, state):
        self.__dict__['_f'] = f
        self.__dict__['_state'] = state

    def __getattr__(self, name):
        return getattr(self._f, name)

    def __setattr__(self, name, value):
        setattr(self._f, name, value)

    def flush(self):
        if not self._state['fired']:
            self._state['fired'] = True
            raise OSError(errno.ENOSPC, 'No space left on device (simulated)')
        return self._f.flush()


class FileWorld(object):
    def __init__(self, case):
        from circus.stream import file_stream
        self.fs_mod = file_stream
        self.case = case
        self.dir = tempfile.mkdtemp(prefix='c20-')
        self.path = os.path.join(self.dir, 'app.log')
        self.t = 0
        self.logical = ''
        self.viol = []
        self.rollovers = 0
        self.last_write = ''
        self.since_rollover_ok = True
        self.stream = None
        self.faults_fired = 0
        self.skipped_after_fault = 0
        self.alts = None    # after a failed flush: the logical logs allowed
        self.max_bytes = case['max_bytes']
        self.backups = case['backup_count']
        tf = case.get('time_format')
        # True: the usual date format; a string: that format (the empty
        # string is one: pid column without a date)
        self.tf = TIME_FORMAT if tf is True else \
            tf if isinstance(tf, str) else None
        fw = self

        class _Clock(object):
            @staticmethod
            def now():
                return BASE_T + timedelta(seconds=fw.t)
        self.clock = _Clock

    def v(self, oracle, msg, **facts):
        if not any(x['oracle'] == oracle for x in self.viol):
            self.viol.append({'oracle': oracle, 'msg': msg, 'facts': facts})

    def pre_populate(self):
        pre = self.case.get('pre') or {}
        # oldest first: highest backup number ... then the active file
        for n in sorted((int(k) for k in pre if k != 'active'), reverse=True):
            with open('%s.%d' % (self.path, n), 'w', encoding='utf8') as f:
                f.write(pre[str(n)])
            self.logical += pre[str(n)]
        if 'active' in pre:
            with open(self.path, 'w', encoding='utf8') as f:
                f.write(pre['active'])
            self.logical += pre['active']
            if len(pre['active'].encode('utf8')) >= self.max_bytes > 0:
                self.since_rollover_ok = False

    def new_stream(self):
        FS = self.fs_mod.FileStream
        kw = {'filename': self.path, 'max_bytes': self.max_bytes,
              'backup_count': self.backups}
        if self.tf is not None:
            kw['time_format'] = self.tf
        s = FS(**kw)
        s.now = self.clock.now
        self.stream = s

    def files(self):
        out = {}
        for fn in os.listdir(self.dir):
            m = re.match(r'^app\.log(?:\.(\d+))?$', fn)
            if m:
                with open(os.path.join(self.dir, fn), encoding='utf8',
                          errors='replace', newline='') as f:
                    out[int(m.group(1)) if m.group(1) else 0] = f.read()
            else:
                out[fn] = None
        return out

    def snapshot_sizes(self):
        try:
            return os.path.getsize(self.path)
        except OSError:
            return 0

    def op_write(self, chunk, pid, dt=1, fault=None):
        before = self.files()
        # (several writes, of different processes, may fall into one second)
        self.t += dt
        exp = formatted(chunk, self.tf, pid, self.clock.now())
        lost = False
        if fault and fault[0] == 'flush':
            state = {'fired': False}
            st = self.stream
            if st._file is not None:
                st._file = _FaultyFile(st._file, state)
            self.fs_mod.open = lambda *a, **k: _FaultyFile(open(*a, **k),
                                                           state)
            raised = False
            try:
                st({'data': chunk, 'pid': pid, 'name': 'stdout'})
            except OSError:
                if not state['fired']:
                    raise
                raised = True
            finally:
                del self.fs_mod.open
                if isinstance(st._file, _FaultyFile):
                    st._file = st._file._f
            if state['fired']:
                self.faults_fired += 1
            if raised:
                # the caller was told. The chunk sits in the file object's
                # buffer: it may reach the disk with the next flush or never
                # - once at most, and in its place
                base = self.alts or [self.logical]
                self.alts = base + [a + exp for a in base]
                self.last_write = ''
                self.since_rollover_ok = False
                self.check(self.files(), 'write whose flush failed')
                return
        elif fault:
            fos = _FaultyOs(os, fault[0], fault[1])
            self.fs_mod.os = fos
            try:
                self.stream({'data': chunk, 'pid': pid, 'name': 'stdout'})
            except OSError:
                if not fos.fired:
                    raise
                # the caller was told: this write is not owed
                lost = True
            finally:
                self.fs_mod.os = os
            if fos.fired:
                self.faults_fired += 1
        elif self.faults_fired:
            try:
                self.stream({'data': chunk, 'pid': pid, 'name': 'stdout'})
            except Exception as e:
                self.v('stream_dead_after_transient_fault',
                       'a write after the disk error had gone raised %r: '
                       'nothing is retained any more' % (e,))
                return
        else:
            self.stream({'data': chunk, 'pid': pid, 'name': 'stdout'})
        after = self.files()
        if lost:
            self.last_write = ''
            self.check(after, 'write that failed with a disk error')
            return
        self.logical += exp
        if self.alts:
            self.alts = [a + exp for a in self.alts]
        self.last_write = exp
        rolled = (0 in before and before.get(0) and
                  not after.get(0, '').startswith(before[0])) or \
            (after.get(1) is not None and after.get(1) != before.get(1))
        if rolled:
            self.rollovers += 1
            self.since_rollover_ok = True
        if self.max_bytes > 0 and len(exp.encode('utf8')) >= self.max_bytes:
            self.since_rollover_ok = False
        self.check(after, 'write of %d bytes' % len(chunk))

    def check(self, files, what):
        if not self.alts:
            return self._check(files, what)
        saved, results = self.viol, []
        for a in self.alts:
            self.viol, self.logical = list(saved), a
            self._check(files, what)
            results.append(self.viol)
            if len(self.viol) == len(saved):
                break
        self.viol = min(results, key=len)
        self.logical = self.alts[0]

    def _check(self, files, what):
        mb, bc = self.max_bytes, self.backups
        stray = [k for k in files if not isinstance(k, int)]
        if stray:
            self.v('stray_file', 'after %s: unexpected files %r' % (what, stray))
        nums = sorted(k for k in files if isinstance(k, int) and k > 0)
        if mb > 0:
            pre_nums = set(int(k) for k in (self.case.get('pre') or {})
                           if k != 'active')
            if len(nums) > max(bc, len(pre_nums)):
                self.v('too_many_backups', 'after %s: backups %r, '
                       'backup_count=%d' % (what, nums, bc))
            beyond = [n for n in nums if n > bc and n not in pre_nums]
            if beyond:
                self.v('backup_number_beyond_count', 'after %s: created '
                       'backup(s) %r, backup_count=%d' % (what, beyond, bc))
        retained = ''.join(files[n] for n in sorted(nums, reverse=True)) + \
            files.get(0, '')
        if not self.logical.endswith(retained):
            self.v('retained_data_not_a_contiguous_tail',
                   'after %s: backups (oldest first) + active file are not a '
                   'suffix of what was written; retained %r... logical ...%r'
                   % (what, retained[:60], self.logical[-80:]),
                   time_format=self.tf is not None)
        elif self.last_write and not retained.endswith(self.last_write):
            self.v('last_write_lost', 'after %s: the last write %r is not '
                   'retained' % (what, self.last_write[:60]))
        if mb > 0 and self.since_rollover_ok:
            size = len(files.get(0, '').encode('utf8'))
            if size >= mb:
                self.v('active_file_reached_max_bytes',
                       'after %s: active file has %d bytes, max_bytes=%d, '
                       'every write since the rollover was smaller'
                       % (what, size, mb), time_format=self.tf is not None)
        if mb == 0:
            if files.get(0, '') != self.logical or nums:
                self.v('not_an_append_only_copy', 'after %s: file differs '
                       'from what was written (rotation off)' % what)
        if self.tf is not None and self.rollovers >= 0:
            pre_len = sum(len(v) for v in (self.case.get('pre') or {}).values())
            if pre_len == 0:
                pat = re.compile({
                    TIME_FORMAT: r'^\d{4}-\d\d-\d\d \d\d:\d\d:\d\d',
                    '': r'^', '%H:%M': r'^\d\d:\d\d',
                    'T%H%M%S': r'^T\d{6}'}[self.tf] + r' \[\d+\] \| ')
                for n in nums + [0]:
                    for line in files.get(n, '').split('\n'):
                        if line and not pat.match(line):
                            self.v('line_without_prefix', 'after %s: line %r '
                                   'has no timestamp/pid prefix' %
                                   (what, line[:60]))
                            return

    def run(self):
        try:
            self.pre_populate()
            self.new_stream()
            for op in self.case['ops']:
                kind = op[0]
                if kind == 'w':
                    raw = op[1]
                    if isinstance(raw, str) and not (len(op) > 4 and op[4]):
                        raw = raw.encode('utf8')
                    # (op[4]: handed over as text, not as bytes off a pipe)
                    self.op_write(raw, op[2], op[3] if len(op) > 3 else 1,
                                  op[5] if len(op) > 5 else None)
                elif kind in ('close', 'open') and self.faults_fired and \
                        self.stream._file is None:
                    # (close / open between a failed rollover and the next
                    # write: the statement speaks of writes)
                    self.skipped_after_fault += 1
                elif kind == 'close':
                    self.stream.close()
                    self.check(self.files(), 'close')
                elif kind == 'open':
                    self.stream.open()
                    self.check(self.files(), 'open')
                elif kind == 'restart':
                    try:
                        self.stream.close()
                    except Exception:
                        pass
                    self.new_stream()
                    self.check(self.files(), 'restart')
            try:
                self.stream.close()
            except Exception:
                pass
        finally:
            shutil.rmtree(self.dir, ignore_errors=True)
        return self


ALPHA = 'abcdefghijklmnopqrstuvwxyz0123456789 '


def gen_chunk(rng, size, counter):
    """valid UTF-8 text of exactly `size` bytes, mostly ASCII, unique"""
    s = ('<%d>' % counter)[:size]
    while len(s.encode('utf8')) < size:
        room = size - len(s.encode('utf8'))
        x = rng.random()
        if x < 0.08 and room >= 2:
            s += rng.choice('éüñß')
        elif x < 0.1 and room >= 3:
            s += rng.choice('€中')
        elif x < 0.2:
            s += '\n'
        else:
            s += rng.choice(ALPHA)
    return s


class C20(Prop):
    id = 'C20'
    level = 'exploration'
    rule = ('one case = (max_bytes, backup_count 1-5, in 15 % 9-101 with '
            'every write rolling, time_format off / the usual one / other '
            'formats incl. the empty string, '
            'pre-existing active file and backups with gaps) + a sequence of '
            'writes (valid UTF-8 chunks of 1..max_bytes-1 bytes, a few >= '
            'max_bytes, with and without newlines, some multi-byte), close, '
            're-open and restart (new FileStream on the same path) on a real '
            'scratch directory with a virtual clock; after every operation '
            'the files are compared with the logical log. thorough adds the '
            'systematic sweep max_bytes <= 8 x backup_count <= 2 x all '
            'chunk-size sequences (sizes 1..max_bytes) of length <= 3 and, '
            'for lengths 4-5, all sequences for max_bytes <= 5 and boundary '
            'sizes {1, max/2, max-1, max} beyond. non-trivial = at least one '
            'rollover happened; distinct = hash of parameters and chunk '
            'sizes')
    chunk = 400
    budget = {'quick': 30, 'thorough': 600}
    components = {'real': ['circus.stream.file_stream.FileStream (all of it)',
                           'the file system (scratch directory)'],
                  'stub': ['the clock (FileStream.now -> virtual time)']}
    assumptions = ['disk faults: in a tenth of the random cases one '
                   'transient error - a rename / remove inside a rollover '
                   '(the failed write is not owed; contiguity and later '
                   'writes are) or a failing flush (the chunk may reach the '
                   'disk later or never, once at most); no torn or short '
                   'writes',
                   'chunks are valid UTF-8; the file encoding is UTF-8',
                   'a clean batch is evidence for the sampled histories, not '
                   'a proof']

    def gen(self, rng, tier, seed):
        rot = rng.random() < 0.85
        mb = rng.choice([1, 2, 3, 5, 8, 16, 33, 64, 100, 257, 1000, 4096]) \
            if rot else 0
        bc = rng.choice([1, 1, 2, 3, 5]) if rot else 0
        # deep retention: backup numbers with two digits, every write rolls
        deep = rot and rng.random() < 0.15
        if deep:
            bc = rng.choice([9, 10, 11, 12, 13, 15, 21, 101])
            mb = rng.choice([2, 3, 5, 8, 16])
        tf = rng.random() < 0.35
        if tf and rng.random() < 0.3:
            tf = rng.choice(['', '', '%H:%M', 'T%H%M%S'])
        pre = {}
        if rng.random() < 0.4:
            cnt = [0]

            def old(n):
                cnt[0] += 1
                return 'old%d:' % cnt[0] + ''.join(
                    rng.choice(ALPHA) for _ in range(rng.randrange(0, n)))
            if rot:
                for k in range(bc, 0, -1):
                    if rng.random() < (0.9 if deep else 0.6):
                        pre[str(k)] = old(max(2, mb))
            if rng.random() < 0.7:
                pre['active'] = old(max(2, mb if rot else 40))
        ops = []
        n = rng.choice([1, 2, 3, 5, 8, 15, 30])
        if deep:
            n = rng.choice([3, bc + 2, bc + 5, 2 * bc + 3])
            n = min(n, 60)
        counter = 0
        for _ in range(n):
            x = rng.random()
            if x < 0.8:
                counter += 1
                if deep and rng.random() < 0.8:
                    size = rng.choice([mb - 1, mb - 1, mb, max(1, mb // 2)])
                elif mb > 1 and rng.random() < 0.9:
                    size = rng.choice([1, mb - 1, max(1, mb // 2),
                                       rng.randrange(1, mb)])
                elif mb:
                    size = rng.choice([mb, mb + 1, 2 * mb + 3, 1])
                else:
                    size = rng.choice([1, 5, 40, 300])
                chunk = gen_chunk(rng, size, counter)
                if rng.random() < 0.08:
                    # text with other line boundaries than \n, newline-only
                    # and empty chunks
                    chunk = rng.choice(['\n', '\n\n', '', 'a\rb\n', 'x\x0cy',
                                        'dos\r\n', 'u\u2028v\n', 'n\x85m',
                                        '\x1c\n', '10%\r20%\r'])
                    if mb:
                        chunk = chunk[:max(1, mb - 1)] if chunk else chunk
                ops.append(['w', chunk,
                            rng.choice([7, 4242, 99999]),
                            rng.choice([0, 0, 0.25, 1, 1, 3])])
                if rng.random() < 0.04:
                    # text handed over as a str with characters UTF-8 cannot
                    # encode (lone surrogates, as os.fsdecode produces)
                    ops[-1][1] = rng.choice(['x\udc80y\n', '\udcff' * 3,
                                             'a\udc80\u20ac\n', '\ud800'])
                    if mb:
                        ops[-1][1] = ops[-1][1][:max(1, (mb - 1) // 3)]
                    ops[-1].append(True)
            elif x < 0.87:
                ops.append(['close'])
                ops.append(['open'])
            elif x < 0.94:
                ops.append(['restart'])
            else:
                ops.append(['open'])
        ws = [o for o in ops if o[0] == 'w']
        if ws and rng.random() < (0.1 if rot else 0.05):
            # one transient disk error inside a rollover: the k-th rename /
            # remove of one write fails, the write is reported as failed;
            # the retained data stay a contiguous tail and later writes are
            # kept again
            o = rng.choice(ws)
            while len(o) < 5:
                o.append(1 if len(o) == 3 else False)
            o.append([rng.choice(['rename', 'rename', 'remove', 'flush',
                                  'flush']),
                      rng.choice([1, 1, 2, 3])])
        return {'max_bytes': mb, 'backup_count': bc, 'time_format': tf,
                'pre': pre, 'ops': ops}

    def enum_cases(self, tier, master):
        if tier != 'thorough':
            return []
        cases = []
        for mb in range(1, 9):
            for bc in (1, 2):
                for L in range(1, 6):
                    if L >= 4 and mb > 5:
                        sizes_pool = (1, mb // 2 or 1, mb - 1 or 1, mb)
                    else:
                        sizes_pool = tuple(range(1, mb + 1))
                    for sizes in itertools.product(sorted(set(sizes_pool)),
                                                   repeat=L):
                        cases.append({'max_bytes': mb, 'backup_count': bc,
                                      'time_format': False, 'pre': {},
                                      'sizes': list(sizes)})
        return cases

    def run(self, case):
        if 'sizes' in case:
            case = dict(case)
            case['ops'] = [['w', ('%d' % i * 9)[:s].ljust(s, 'x'), 7]
                           for i, s in enumerate(case['sizes'])]
        fw = FileWorld(case).run()
        sig = hashlib.sha1(repr((case['max_bytes'], case['backup_count'],
                                 case.get('time_format'),
                                 sorted((case.get('pre') or {}).keys()),
                                 [(o[0], len(o[1]) if o[0] == 'w' else 0)
                                  for o in case['ops']])).encode()
                           ).hexdigest()[:16]
        nops = sum(1 for o in case['ops'] if o[0] == 'w')
        return {'violations': fw.viol, 'fired': {
                    'rollover': fw.rollovers,
                    'restart': sum(1 for o in case['ops']
                                   if o[0] == 'restart'),
                    'close_reopen': sum(1 for o in case['ops']
                                        if o[0] == 'close'),
                    'disk_error_in_rollover': fw.faults_fired},
                'probes': {'writes': nops,
                           'with_time_format': 1 if fw.tf is not None else 0,
                           'with_preexisting_files': 1 if case.get('pre')
                           else 0},
                'ops': {'write': nops}, 'sig': sig,
                'nontrivial': fw.rollovers > 0,
                'stats': {'vtime': float(fw.t), 'steps': len(case['ops']),
                          'calls': 0},
                'aborted': None,
                'digest': hashlib.sha1(repr(fw.viol).encode() +
                                       fw.logical.encode('utf8')).hexdigest()}

    def simplify(self, case):
        if 'ops' not in case:
            return
        if case.get('pre'):
            c = dict(case)
            c['pre'] = {}
            yield c
        if case.get('time_format') not in (None, False):
            c = dict(case)
            c['time_format'] = False
            yield c


PROP = C20()
