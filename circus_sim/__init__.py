"""Deterministic simulation of circusd (see /verif/DESIGN.md)."""
