"""Importable hook functions for daemons built from a configuration file
(hooks are given there by dotted name)."""


def veto(watcher, arbiter, hook_name, **kw):
    return False


def agree(watcher, arbiter, hook_name, **kw):
    return True


def fail(watcher, arbiter, hook_name, **kw):
    from .world import ScriptedFailure
    raise ScriptedFailure('hook %s scripted failure' % hook_name)
