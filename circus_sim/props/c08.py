"""C08 - shutdown is complete: nothing is left behind after quit or a
termination signal; pid-file handling at start-up.

The real circusd.main() is called inside the simulator (it blocks in
loop.start() = SimLoop.run_forever); every operation is armed beforehand and
injected by the scheduler from inside the loop."""
import os
import random
import shutil
import signal
import socket
import sys
import tempfile

from .base import Prop
from ..lifecycle import Violation
from ..world import World
from .. import ini
from .. import gen
from ..sim import EPOCH

import circus.circusd
import circus.arbiter

TERM_SIGS = [15, 2, 3]


class C08Run(object):
    def __init__(self, case):
        self.case = case
        self.cfg = case['cfg']
        self.violations = []
        self.fired = {}
        self.probes = {}
        self.aborted = None
        self.trace = []
        self.exit_code = 'none'
        self.arbiters = []
        self.arbiter_times = []
        self.trigger_t = None
        self.clients = []
        self.deadline_hit = False
        self.inflight = False

    def viol(self, oracle, msg, **facts):
        if not any(v.oracle == oracle for v in self.violations):
            self.violations.append(Violation(oracle, msg, **facts))

    def count(self, d, k, n=1):
        d[k] = d.get(k, 0) + n

    # ------------------------------------------------------------------ run
    def run(self):
        w = self.world = World(self.cfg)
        d = w.scratch_dir()
        self.pidpath = os.path.join(d, 'circusd.pid')
        self.unix_paths = []
        socks = []
        for i, s in enumerate(self.cfg.get('sockets', [])):
            if s['kind'] == 'unix':
                p = os.path.join(d, 's%d.sock' % i)
                self.unix_paths.append(p)
                socks.append({'name': 'sock%d' % i, 'path': p})
            else:
                socks.append({'name': 'sock%d' % i, 'host': '127.0.0.1',
                              'port': 0})
        ws = []
        for wc in self.cfg['watchers']:
            o = wc['opts']
            ent = {'name': wc['name'],
                   'cmd': 'worker --marker=%s' % wc['marker'],
                   'numprocesses': o.get('numprocesses', 1),
                   'graceful_timeout': o.get('graceful_timeout', 0.3),
                   'warmup_delay': int(o.get('warmup_delay', 0))}
            if o.get('singleton'):
                ent['singleton'] = True
            if o.get('autostart', True) is False:
                ent['autostart'] = False
            if 'priority' in o:
                ent['priority'] = o['priority']
            if socks and wc.get('use_sockets'):
                ent['use_sockets'] = True
            if socks and wc.get('on_demand'):
                ent['use_sockets'] = True
                ent['on_demand'] = True
            for hname, fn in (wc.get('ini_hooks') or {}).items():
                ent['hooks.%s' % hname] = 'circus_sim.hookmods.%s' % fn
            ws.append(ent)
            w.mix[wc['marker']] = wc.get('mix')
        circ = {'check_delay': self.cfg.get('check_delay', 1.0),
                'warmup_delay': int(self.cfg.get('warmup_delay', 0))}
        if self.cfg.get('pidfile', True):
            circ['pidfile'] = self.pidpath
        self.ini_path = os.path.join(d, 'circus.ini')
        with open(self.ini_path, 'w') as f:
            f.write(ini.render(circus=circ, watchers=ws, sockets=socks))
        # pid file pre-population
        pre = self.cfg.get('pidfile_content')
        if pre is not None and self.cfg.get('pidfile', True):
            with open(self.pidpath, 'w') as f:
                f.write(pre['text'])
            if pre.get('live'):
                w.kernel.foreign.add(pre['live'])
            if pre.get('eperm'):
                w.kernel.foreign_eperm = set([pre['live']])
        self.pre = pre

        # capture the arbiters circusd.main() builds
        run = self

        class CapturingArbiter(circus.arbiter.Arbiter):
            @classmethod
            def load_from_config(cls, config_file, loop=None):
                a = circus.arbiter.Arbiter.load_from_config.__func__(
                    cls, config_file, loop=loop)
                run.arbiters.append(a)
                run.arbiter_times.append(w.sim.now)
                w.adopt(a)
                return a
        circus.circusd.Arbiter = CapturingArbiter
        old_argv = sys.argv
        sys.argv = ['circusd', self.ini_path]
        self.handlers_before = dict(w.sigreg.handlers)
        self.arm_ops()

        def on_dispatched(r):
            # only an *accepted* quit request is a shutdown trigger (one
            # that meets an operation in flight is refused: C10)
            if r.cmd == 'quit' and r.accepted:
                self.shutdown_triggered('quit', r, slot=r.excl_before)
            elif r.cmd == 'quit':
                self.count(self.fired, 'quit_refused')
                # end the life with a signal a little later
                w.sim.after(1.0, lambda: self.exec_op(
                    {'op': 'dsig', 'sig': 15}, -1), 'op')
        w.dispatch_hooks.append(on_dispatched)
        import logging
        root_handlers = list(logging.getLogger().handlers)
        import contextlib
        import io
        self.stdout = io.StringIO()
        try:
            try:
                with contextlib.redirect_stdout(self.stdout):
                    circus.circusd.main()
                self.exit_code = 'returned'
            except SystemExit as e:
                self.exit_code = e.code
            except BaseException as e:       # noqa
                self.exit_code = 'exception'
                self.exc = e
        finally:
            sys.argv = old_argv
            circus.circusd.Arbiter = circus.arbiter.Arbiter
            for h in list(logging.getLogger().handlers):
                if h not in root_handlers:
                    logging.getLogger().removeHandler(h)
            logging.getLogger('circus').disabled = True
        try:
            # SIGKILL is not synchronous: let the simulated death latency of
            # workers that were already killed elapse before looking
            if not w.sim.hung:
                w.sim.advance(0.02)
            self.judge()
        finally:
            self.stats = {'steps': w.sim.steps, 'calls': w.sim.ncalls,
                          'vtime': w.sim.now - EPOCH,
                          'spawns': len(w.kernel.spawns)}
            for tag, n in w.sim.fired.items():
                if tag in ('death', 'self_exit'):
                    self.count(self.fired, 'env_' + tag, n)
            self.digest = w.digest()
            self.spawn_log = [(p.marker, p.spawn_time - EPOCH)
                              for p in w.kernel.spawns]
            self.leftover_sockets()
            w.close()
        return self

    def leftover_sockets(self):
        for c in self.clients:
            try:
                c.close()
            except Exception:
                pass
        for a in self.arbiters:
            for s in list(a.sockets.values()):
                try:
                    socket.socket.close(s)
                except Exception:
                    pass
            try:
                a.loop.close()
            except Exception:
                pass

    # ------------------------------------------------------------------ ops
    def arm_ops(self):
        w = self.world
        sim = w.sim

        def read_pidfile():
            try:
                self.pid_seen = open(self.pidpath).read().strip()
            except OSError:
                self.pid_seen = '<no file>'
        if self.cfg.get('pidfile', True):
            sim.after_steps(1, read_pidfile, 'probe')
        for i, op in enumerate(self.case['ops']):
            def fire(op=op, i=i):
                self.exec_op(op, i)

            def stage(op=op, fire=fire):
                sub = op.get('sub')
                if not sub:
                    fire()
                elif 'calls' in sub:
                    sim.at_boundary(sub['calls'], fire, 'op')
                else:
                    sim.after_steps(sub['steps'], fire, 'op')
            sim.at_time(sim.now + op['at'], stage, 'op')

    def busy(self):
        a = self.arbiters[-1] if self.arbiters else None
        return a is not None and a._exclusive_running_command is not None

    def exec_op(self, op, i):
        w = self.world
        k = w.kernel
        kind = op['op']
        if self.trigger_t is not None and kind != 'die' and \
                not op.get('late'):
            return
        if kind == 'req':
            if w.ctx.router_stream is None or w.ctx.router_stream.closed_:
                return
            props = dict(op.get('props') or {})
            if op.get('w') is not None:
                props['name'] = self.cfg['watchers'][op['w'] % len(
                    self.cfg['watchers'])]['name']
            r = w.request(op['cmd'], props, waiting=op.get('waiting', False))
            self.count(self.fired, 'req:' + op['cmd'])
            w.deliver(r)
        elif kind == 'die':
            m = self.cfg['watchers'][op['w'] % len(self.cfg['watchers'])][
                'marker']
            live = sorted(p.pid for p in k.live_by_marker(m))
            if live:
                pid = live[op.get('j', 0) % len(live)]
                if op.get('how') == 'kill':
                    k.external_signal(pid, 9)
                else:
                    k.external_exit(pid, op.get('arg', 1))
                self.count(self.fired, 'die')
        elif kind == 'connect':
            # a client connects to a managed socket: the next periodic check
            # starts the on-demand watcher, outside the command lock
            import socket as _socket
            if self.unix_paths:
                try:
                    c = _socket.socket(_socket.AF_UNIX, _socket.SOCK_STREAM)
                    c.setblocking(False)
                    try:
                        c.connect(self.unix_paths[0])
                    except BlockingIOError:
                        pass
                    self.clients.append(c)
                    self.count(self.fired, 'socket_event')
                except OSError:
                    pass
        elif kind == 'clockjump':
            # the wall clock is stepped (timers run on the monotonic clock) -
            # once the shutdown has been triggered (before, a large step
            # backwards pauses tornado's periodic callback and with it the
            # activity the trigger's own placement counts)
            if self.trigger_t is None:
                self.cj_tries = getattr(self, 'cj_tries', 0) + 1
                if self.cj_tries < 200:
                    w.sim.after(0.02, lambda: self.exec_op(op, i), 'op')
                return
            w.sim.wall_offset += float(op['delta'])
            w.sim.rec('clockjump', op['delta'])
            self.count(self.fired, 'clock_jump')
        elif kind == 'addsock':
            # the configuration file gains a managed unix socket (bound by
            # the next reloadconfig, not at start-up): its file is the
            # daemon's to remove as well
            n = len(self.unix_paths)
            pth = os.path.join(os.path.dirname(self.ini_path),
                               'added%d.sock' % n)
            with open(self.ini_path, 'a') as f:
                f.write('\n[socket:added%d]\npath = %s\n' % (n, pth))
            self.unix_paths.append(pth)
            self.count(self.fired, 'addsock')
        elif kind == 'dsig':
            sig = op['sig']
            self.count(self.fired, 'dsig:%d' % sig)
            if sig in TERM_SIGS:
                self.shutdown_triggered('signal', None)
            handled = w.daemon_signal(sig)
            if not handled and sig in TERM_SIGS and \
                    self.exit_code == 'none' and \
                    any(p.alive for p in k.children_of_daemon()):
                # the daemon has handed the signal back to its default
                # disposition while it is still stopping its workers: a
                # second, impatient signal kills it in the middle
                self.viol('killed_by_a_second_signal',
                          'signal %d arrived %.3f s after the shutdown began: '
                          'no handler is installed any more and workers %s '
                          'are still alive' % (
                              sig, w.sim.now - (self.trigger_t or w.sim.now),
                              [p.pid for p in k.children_of_daemon()
                               if p.alive][:4]))

    def shutdown_triggered(self, how, req, slot='?'):
        w = self.world
        if self.trigger_t is not None:
            return
        self.trigger_t = w.sim.now
        self.trigger_how = how
        self.trigger_req = req
        self.inflight = self.busy()
        a = self.arbiters[-1] if self.arbiters else None
        self.slot_at_trigger = a._exclusive_running_command if a else None
        if slot != '?':
            self.slot_at_trigger = slot
            self.inflight = slot is not None
        self.started_at_trigger = bool(a and a._running)
        if self.inflight:
            self.count(self.fired, 'shutdown_while_operation_in_flight')
        self.count(self.fired, 'shutdown_' + how)
        # the daemon must be gone within the sum of graceful timeouts + the
        # operation in flight + a constant
        bound = 2.0
        for wc in self.cfg['watchers']:
            o = wc['opts']
            n = o.get('numprocesses', 1) + 3
            bound += (n + 2) * (o.get('graceful_timeout', 0.3) + 0.1) + \
                (n + 1) * o.get('warmup_delay', 0)
        bound += self.cfg.get('warmup_delay', 0) * (len(
            self.cfg['watchers']) + 1) + \
            min(2.0, 2 * self.cfg.get('check_delay', 1.0))
        # (the period of the check is no part of it: a shutdown does not wait
        # for the next periodic check to come round)
        self.bound = bound

        def deadline():
            self.deadline_hit = True
            for a in self.arbiters:
                try:
                    a.loop.asyncio_loop.stop()
                except Exception:
                    pass
            w.loop.stop()
        w.sim.at_time(w.sim.now + bound, deadline, 'deadline')

    # ---------------------------------------------------------------- judge
    def judge(self):
        w = self.world
        k = w.kernel
        me = k.getpid_value
        pre = self.pre
        if w.sim.hung and self.trigger_t is not None:
            # a daemon that spins for ever inside its shutdown never exits
            self.viol('daemon_did_not_exit',
                      '%s at +%.3f s: the daemon hangs in an unbounded '
                      'busy-wait (%s) and never exits'
                      % (self.trigger_how, self.trigger_t - EPOCH,
                         str(w.sim.hung)[:160]),
                      how=self.trigger_how, slot='hung')
            return
        if w.sim.hung:
            self.aborted = 'daemon_hung'
            return
        if pre is not None and pre.get('live'):
            # another live circusd owns the pid file: refuse to run
            self.count(self.probes, 'pidfile_live_foreign')
            # (an uncaught exception out of main() - the EPERM of a process
            # of another user is re-raised - ends the interpreter with 1)
            refused = self.exit_code == 1 or (
                pre.get('eperm') and self.exit_code == 'exception')
            if not refused or k.spawns:
                self.viol('started_despite_live_pidfile',
                          'pid file names live process %d: exit code %r, %d '
                          'workers spawned' % (pre['live'], self.exit_code,
                                               len(k.spawns)))
            try:
                txt = open(self.pidpath).read()
            except OSError:
                txt = None
            if txt != pre['text']:
                self.viol('foreign_pidfile_touched', 'pid file of the live '
                          'process was changed: %r -> %r' % (pre['text'], txt))
            return
        if self.exit_code == 'exception':
            self.viol('daemon_crashed',
                      'circusd.main() ended with %r (pid file content %r)'
                      % (self.exc, (pre or {}).get('text')),
                      exc=type(self.exc).__name__,
                      pidfile=(pre or {}).get('kind'))
            return
        if self.cfg.get('pidfile', True):
            kind = pre['kind'] if pre is not None else 'absent'
            self.count(self.probes, 'pidfile_' + kind)
            if getattr(self, 'pid_seen', None) is None:
                self.count(self.probes, 'pidfile_not_observed')
            elif self.pid_seen != str(me):
                self.viol('pidfile_not_taken_over', 'pid file content %r was '
                          'not replaced by the daemon pid: %r'
                          % ((pre or {}).get('text'), self.pid_seen),
                          kind=kind)
        if self.trigger_t is None:
            # no shutdown was requested: the run ends at the cap
            self.aborted = 'no_shutdown'
            return
        if w.sim.capped and not self.deadline_hit and \
                w.sim.now - self.trigger_t < self.bound:
            # the run ended (cap on virtual time) before the shutdown had
            # had its time: nothing to judge
            self.aborted = 'no_shutdown'
            return
        if self.deadline_hit or w.sim.capped:
            a = self.arbiters[-1] if self.arbiters else None
            self.viol('daemon_did_not_exit',
                      '%s at +%.3f s (slot held by %r, start-up %s): the '
                      'daemon is still running %.1f s later (bound %.1f s)'
                      % (self.trigger_how, self.trigger_t - EPOCH,
                         self.slot_at_trigger,
                         'complete' if self.started_at_trigger
                         else 'in progress', w.sim.now - self.trigger_t,
                         self.bound),
                      how=self.trigger_how,
                      slot=str(self.slot_at_trigger))
            return
        self.count(self.probes, 'clean_shutdowns_judged')
        # the quit request that caused the shutdown is answered like any
        # other request (C06), and before the control socket goes away
        rq = self.trigger_req
        if self.trigger_how == 'quit' and rq is not None and not rq.cast:
            oks = [e for e in rq.replies if isinstance(e[5], dict) and
                   e[5].get('status') == 'ok']
            self.count(self.probes, 'quit_reply_checked_%s' % (
                'waiting' if rq.waiting else 'plain'))
            if len(oks) != 1 or len(rq.replies) != 1:
                self.viol('quit_not_answered',
                          'the accepted quit request (waiting=%s) got %d '
                          'replies before the daemon closed its control '
                          'socket: %r' % (rq.waiting, len(rq.replies),
                                          [e[5] for e in rq.replies][:2]),
                          waiting=bool(rq.waiting))
        # so is a restart of the whole daemon handled before the shutdown
        for r in w.reqs:
            if r.cmd == 'restart' and not (r.props or {}).get('name') and \
                    r.accepted and not r.cast and r.disp_t is not None and \
                    r.disp_t < self.trigger_t - 1e-9 and \
                    any(r.disp_t < ta < self.trigger_t
                        for ta in self.arbiter_times):
                # (the restart went through: the next arbiter was built
                # before the shutdown began)
                self.count(self.probes, 'daemon_restart_reply_checked')
                if len(r.replies) != 1:
                    self.viol('daemon_restart_not_answered',
                              'the accepted restart of the daemon '
                              '(waiting=%s, dispatched at +%.3f s, shutdown '
                              'at +%.3f s) got %d replies' %
                              (r.waiting, r.disp_t - EPOCH,
                               self.trigger_t - EPOCH, len(r.replies)),
                              once=r.idx, waiting=bool(r.waiting))
        if self.exit_code != 0:
            self.viol('wrong_exit_status', 'circusd exited with %r after %s'
                      % (self.exit_code, self.trigger_how))
        left = [(p.pid, p.state, p.beh.label) for p in k.procs.values()
                if p.orig_parent == me and p.alive]
        zomb = [(p.pid, p.state) for p in k.procs.values()
                if p.orig_parent == me and p.state == 'zombie']
        if left:
            self.viol('worker_survived_shutdown',
                      'after %s the daemon exited, workers left: %s'
                      % (self.trigger_how, left), how=self.trigger_how,
                      slot=str(self.slot_at_trigger),
                      after_trigger=any(
                          k.procs[x[0]].spawn_time >= self.trigger_t
                          for x in left))
        if zomb:
            self.count(self.probes, 'zombies_at_exit', len(zomb))
        for r in w.ctx.routers:
            if not r.closed:
                self.viol('control_socket_left_open', 'ROUTER socket not '
                          'closed at exit')
        if w.ctx.router_stream is not None and not w.ctx.router_stream.closed_:
            self.viol('control_socket_left_open', 'control stream not closed')
        for p in w.ctx.pubs:
            if not p.closed:
                self.viol('event_socket_left_open', 'PUB socket not closed')
        for a in self.arbiters:
            for s in a.sockets.values():
                if s.fileno() != -1:
                    self.viol('managed_socket_left_open', 'socket %s still '
                              'open at exit' % s.name)
        for p in self.unix_paths:
            if os.path.exists(p):
                self.viol('unix_socket_file_left', 'unix socket path %s '
                          'still exists' % os.path.basename(p))
        if self.cfg.get('pidfile', True) and os.path.exists(self.pidpath):
            self.viol('pidfile_left', 'pid file still exists: %r'
                      % open(self.pidpath).read())
        for sig in (1, 2, 3, 15, 28):
            hd = w.sigreg.handlers.get(sig, signal.SIG_DFL)
            if callable(hd) and getattr(hd, '__self__', None) is not None:
                self.viol('signal_handler_not_restored', 'handler of signal '
                          '%d still installed' % sig)
                break


PID_KINDS = ['absent', 'empty', 'blank', 'garbage', 'negative', 'zero',
             'own', 'live', 'live_other', 'dead', 'huge', 'huge2', 'newline',
             'float']


def gen_pidfile(rng):
    kind = rng.choice(PID_KINDS + ['absent'] * 5 + ['own', 'own'])
    if kind == 'absent':
        return None
    text = {'empty': '', 'blank': ' \n', 'garbage': 'not-a-pid',
            'negative': '-5\n', 'zero': '0\n', 'own': '4242\n',
            'live': '77\n', 'live_other': '78\n', 'dead': '31337\n',
            'huge': '2147483648\n',
            'huge2': '99999999999999999999\n', 'newline': '\n\n',
            'float': '12.5\n'}[kind]
    d = {'kind': kind, 'text': text}
    if kind == 'live':
        d['live'] = 77
    if kind == 'live_other':
        # alive and owned by another user: kill(pid, 0) says EPERM
        d['live'] = 78
        d['eperm'] = True
    return d


class C08(Prop):
    id = 'C08'
    level = 'exploration'
    hashseed_sensitive = True
    rule = ('one case = the real circusd.main() on a generated ini file '
            '(1-3 watchers incl. stubborn / slow workers, inet and unix '
            'managed sockets, pid file with seeded pre-existing content; in '
            '12 % an on-demand watcher and a client connection) + '
            'armed operations: requests (incr, decr, restart, reload, stop, '
            'start, reloadconfig, daemon restart), worker deaths, SIGHUP, '
            'then quit or SIGTERM / SIGINT / SIGQUIT delivered at a seeded '
            'time and kernel-call boundary / loop step - during start-up '
            'warm-ups, respawns, surplus kills, restarts or idle. judged: '
            'exit status, kernel process table, fake zmq sockets, managed '
            'sockets, unix paths, pid file, signal handlers, all within a '
            'configuration-derived bound. non-trivial = shutdown arrived '
            'while an operation held the exclusive slot or start-up was in '
            'progress; distinct = hash of (trigger, slot holder, abstract '
            'state at the trigger, configuration shape)')
    chunk = 60
    budget = {'quick': 40, 'thorough': 900}

    def gen(self, rng, tier, seed):
        cfg = gen.gen_base_cfg(rng, seed, nwatch=(1, 2, 2, 3),
                               kinds=('obedient', 'slow', 'stubborn',
                                      'selfexit'),
                               warmup=[0, 0, 1, 2], grace=[0, 0.05, 0.3, 1.0],
                               singleton_p=0.1)
        cfg['warmup_delay'] = rng.choice([0, 0, 1])
        if rng.random() < 0.15:
            # a daemon that sleeps for a long time between two checks
            cfg['check_delay'] = 60.0
        cfg['sockets'] = [{'kind': rng.choice(['inet', 'unix'])}
                          for _ in range(rng.choice([0, 1, 2]))]
        cfg['pidfile'] = rng.random() < 0.85
        cfg['pidfile_content'] = gen_pidfile(rng) if cfg['pidfile'] else None
        cfg['max_vtime'] = 900.0
        for wc in cfg['watchers']:
            wc['use_sockets'] = rng.random() < 0.5
            if rng.random() < 0.12:
                # hooks given by dotted name in the file; whatever they
                # answer the shutdown has to complete
                wc['ini_hooks'] = dict(
                    (h, rng.choice(['veto', 'veto', 'agree', 'fail']))
                    for h in rng.sample(['before_signal', 'after_signal',
                                         'before_stop', 'after_stop'],
                                        rng.choice([1, 2])))
        if len(cfg['watchers']) >= 2 and rng.random() < 0.06:
            # two sections whose names differ in letter case only: two
            # watchers for the file, one slot in the daemon's name directory
            cfg['watchers'][1]['name'] = cfg['watchers'][0]['name'].upper()
        nw = len(cfg['watchers'])
        ops = []
        t = 0.0
        # total start-up time (for placing the trigger inside it)
        startup = sum(w['opts']['numprocesses'] * w['opts']['warmup_delay']
                      for w in cfg['watchers']) + cfg['warmup_delay'] * nw
        n = rng.choice([0, 1, 2, 4])
        for _ in range(n):
            t += rng.choice([0.0, 0.05, 0.3, 1.0, 2.5])
            x = rng.random()
            if x < 0.5:
                cmd = rng.choice(['incr', 'decr', 'restart', 'reload', 'stop',
                                  'start', 'reloadconfig', 'status'])
                props = {}
                if cmd in ('incr', 'decr'):
                    props['nb'] = rng.choice([1, 2])
                ops.append({'op': 'req', 'cmd': cmd, 'at': t,
                            'w': None if cmd in ('reloadconfig',) else
                            rng.randrange(nw), 'props': props,
                            'waiting': rng.random() < 0.5})
            elif x < 0.8:
                ops.append({'op': 'die', 'at': t, 'w': rng.randrange(nw),
                            'j': rng.randrange(4),
                            'how': rng.choice(['kill', 'exit']),
                            'arg': rng.choice([0, 1, 3])})
            elif x < 0.9:
                ops.append({'op': 'dsig', 'sig': 1, 'at': t})
                if rng.random() < 0.5:
                    ops[-1] = {'op': 'addsock', 'at': t}
                    ops.append({'op': 'req', 'cmd': 'reloadconfig',
                                'at': t + 0.01, 'w': None, 'props': {},
                                'waiting': True})
            else:
                ops.append({'op': 'req', 'cmd': 'restart', 'at': t, 'w': None,
                            'props': {}, 'waiting': False})
        # the shutdown trigger
        place = rng.random()
        if place < 0.35 and startup > 0:
            tt = rng.random() * startup
        elif place < 0.6 and ops:
            tt = ops[-1]['at'] + rng.choice([0.0, 0.001, 0.01, 0.05, 0.11,
                                             0.3])
        else:
            tt = t + startup + rng.choice([0.0, 0.5, 1.0, 1.01, 3.0])
        if rng.random() < 0.12:
            # an on-demand watcher started by a socket event (from the
            # periodic check, outside the command lock); the shutdown
            # arrives around that start
            cfg['sockets'] = [{'kind': 'unix'}] + cfg['sockets']
            wc = rng.choice(cfg['watchers'])
            wc['on_demand'] = True
            wc['opts'].pop('singleton', None)
            wc['opts']['numprocesses'] = rng.choice([1, 2, 3])
            wc['opts']['warmup_delay'] = rng.choice([0, 1, 2])
            if cfg.get('check_delay', 1.0) > 5:
                cfg['check_delay'] = 1.0
            tc = t + startup + rng.choice([0.0, 0.3, 1.2])
            ops.append({'op': 'connect', 'at': tc})
            tt = tc + rng.random() * (
                cfg.get('check_delay', 1.0) + 0.5 +
                wc['opts']['numprocesses'] * wc['opts']['warmup_delay'])
        sub = rng.choice([None, None, {'calls': rng.randrange(1, 30)},
                          {'steps': rng.randrange(1, 30)}])
        if rng.random() < 0.3:
            trig = {'op': 'req', 'cmd': 'quit', 'at': tt, 'w': None,
                    'props': {}, 'waiting': rng.random() < 0.5, 'sub': sub}
        else:
            trig = {'op': 'dsig', 'sig': rng.choice(TERM_SIGS), 'at': tt,
                    'sub': sub}
        ops.append(trig)
        # requests racing the shutdown
        for _ in range(rng.choice([0, 0, 0, 1, 2])):
            cmd = rng.choice(['start', 'restart', 'incr', 'reload', 'stop'])
            ops.append({'op': 'req', 'cmd': cmd, 'late': True,
                        'at': tt + rng.choice([0.0, 0.0, 0.001, 0.01, 0.1,
                                               0.3]),
                        'sub': rng.choice([None, {'steps': rng.randrange(
                            1, 12)}, {'calls': rng.randrange(1, 20)}]),
                        'w': rng.randrange(nw),
                        'props': {'nb': 1} if cmd == 'incr' else {},
                        'waiting': rng.random() < 0.5})
        if rng.random() < 0.1:
            # the wall clock is stepped while the shutdown runs (grace
            # periods are lengths of time)
            ops.append({'op': 'clockjump', 'late': True,
                        'delta': rng.choice([-3600.0, -86400.0, 3600.0, -2.0]),
                        'at': tt + rng.choice([0.0, 0.01, 0.05, 0.2, 0.5])})
        if rng.random() < 0.15:
            # an impatient second termination signal while the shutdown runs
            ops.append({'op': 'dsig', 'sig': rng.choice(TERM_SIGS),
                        'late': True,
                        'at': tt + rng.choice([0.02, 0.1, 0.3, 0.8])})
        # deaths racing the shutdown
        for _ in range(rng.choice([0, 0, 1, 2])):
            ops.append({'op': 'die', 'at': tt + rng.choice(
                [0.0, 0.01, 0.05, 0.1, 0.3]), 'w': rng.randrange(nw),
                'j': rng.randrange(4), 'how': rng.choice(['kill', 'exit'])})
        return {'cfg': cfg, 'ops': ops}

    def run(self, case):
        r = C08Run(case).run()
        import hashlib
        nt = bool(r.inflight or (r.trigger_t is not None and
                                 not getattr(r, 'started_at_trigger', True)))
        sig = hashlib.sha1(repr((getattr(r, 'trigger_how', None),
                                 getattr(r, 'slot_at_trigger', None),
                                 [op['op'] + str(op.get('cmd', op.get('sig')))
                                  for op in case['ops']],
                                 [(w['opts']['numprocesses'],
                                   w['opts']['graceful_timeout'])
                                  for w in case['cfg']['watchers']],
                                 (case['cfg'].get('pidfile_content') or
                                  {}).get('kind'))).encode()).hexdigest()[:16]
        ops = {}
        for k2, v in r.fired.items():
            if k2.startswith('req:'):
                ops[k2[4:]] = v
        return {'violations': [v.as_dict() for v in r.violations],
                'fired': r.fired, 'probes': r.probes, 'ops': ops, 'sig': sig,
                'nontrivial': nt, 'stats': getattr(r, 'stats', {}),
                'aborted': r.aborted, 'digest': getattr(r, 'digest', None)}


PROP = C08()
