#!/usr/bin/env python3
"""Regenerate /verif/MANIFEST.json from the property registry."""
import json
import os
import sys

HERE = os.path.dirname(os.path.dirname(os.path.abspath(__file__)))
sys.path.insert(0, HERE)
PY = '/venv/bin/python'

from circus_sim.props import meta  # noqa: E402

checks = []
na = [{'property_id': 'C16',
       'reason': 'get_config is a pure single-threaded function of the ini text '
                 'and os.environ: no schedule, clock, fault, crash point or '
                 'interleaving for a simulator to control (DESIGN.md section 7); '
                 'its history-dependent parts are covered by C12, C15 and C18'}]
for pid in meta.ORDER:
    m = meta.META.get(pid)
    if m is None or not os.path.exists(
            os.path.join(HERE, 'circus_sim', 'props', pid.lower() + '.py')):
        if pid != 'C16':
            na.append({'property_id': pid,
                       'reason': 'check not built yet in this round (planned, '
                                 'see DESIGN.md section 6)'})
        continue
    checks.append({
        'property_id': pid,
        'quick_cmd': '%s -m circus_sim check --property %s --tier quick' % (PY, pid),
        'thorough_cmd': '%s -m circus_sim check --property %s --tier thorough' % (PY, pid),
        'evidence_file': 'evidence/%s.json' % pid,
        'replay_cmd_template': '%s -m circus_sim replay {path}' % PY,
        'engine': 'circus_sim',
        'level_claimed': {'category': m['level'], 'text': m['text'],
                          'design_ref': 'DESIGN.md section 6, %s' % pid},
        'level_note': m['note'],
        'technique': m['technique'],
    })

manifest = {
    'version': 1,
    'setup_cmd': '%s -m circus_sim selftest setup' % PY,
    'hooks': {
        'guard': 'CIRCUS_VERIF',
        'enable': 'no source hook exists: every seam is a module attribute, a '
                  'constructor argument or the event loop, installed by '
                  'circus_sim.world from outside the repository',
        'baseline_off_cmd': 'cd /repo && /venv/bin/python -m pytest -ra -q -p '
                            'no:cacheprovider --timeout=900 '
                            '--continue-on-collection-errors',
        'source_commits': [],
        'add_only': True,
    },
    'engines': [{
        'name': 'circus_sim',
        'path': 'circus_sim/',
        'serves_properties': [c['property_id'] for c in checks],
        'kind_free_text': 'deterministic simulation with fault injection: the '
                          'real circus Arbiter/Watcher/Controller on a '
                          'virtual-time asyncio loop, a simulated kernel and '
                          'fake ZeroMQ, driven by a seeded scheduler',
    }],
    'checks': checks,
    'not_applicable': na,
    'notes': 'All checks import circus from VERIF_REPO (default /repo) at run '
             'time, so they always run the current working tree. Exit codes: 0 '
             'held, 1 violation (VIOLATION line + replay file), 2 harness '
             'error. Known findings: known_findings.txt.',
}
with open(os.path.join(HERE, 'MANIFEST.json'), 'w') as f:
    json.dump(manifest, f, indent=1)
    f.write('\n')
print('MANIFEST.json: %d checks, %d not applicable' % (len(checks), len(na)))
