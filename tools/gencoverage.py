#!/usr/bin/env python3
"""what the generators actually produce: for each property, the watcher
options, request kinds (with their property keys) and operation kinds seen in
N generated cases.  usage: tools/gencoverage.py [N] [props...]"""
import sys, os, random, json, collections
sys.path.insert(0, os.path.join(os.path.dirname(__file__), '..'))
from circus_sim import runner
from circus_sim.determinism import implemented

n = int(sys.argv[1]) if len(sys.argv) > 1 else 300
props = sys.argv[2:] or implemented()
for pid in props:
    prop = runner.get_prop(pid)
    opts = collections.Counter(); reqs = collections.Counter()
    ops = collections.Counter(); cfgk = collections.Counter()
    setopts = collections.Counter(); kinds = collections.Counter()
    for i in range(n):
        seed = runner.run_seed(1, pid, 'quick', i)
        try:
            case = prop.gen(random.Random(seed), 'quick', seed)
        except Exception as e:
            kinds['gen-error:%r' % e] += 1
            continue
        if not isinstance(case, dict):
            continue
        kinds[case.get('kind', '-')] += 1
        cfg = case.get('cfg') or {}
        for k in cfg:
            if k != 'watchers':
                cfgk[k] += 1
        for wc in cfg.get('watchers', []) or []:
            for k in (wc.get('opts') or {}):
                opts[k] += 1
            for k in wc:
                if k not in ('opts', 'name', 'marker', 'mix'):
                    opts['<%s>' % k] += 1
        for op in case.get('ops', []) or []:
            ops[op.get('op')] += 1
            if op.get('op') == 'req':
                pk = sorted((op.get('props') or {}).keys())
                reqs['%s(%s)' % (op.get('cmd'), ','.join(pk))] += 1
                if op.get('cmd') == 'set':
                    for k in ((op.get('props') or {}).get('options') or {}) \
                            if isinstance((op.get('props') or {}).get('options'), dict) else []:
                        setopts[k] += 1
    print('==== %s (%d cases) kinds=%s' % (pid, n, dict(kinds)))
    print('  cfg keys     :', dict(cfgk))
    print('  watcher opts :', dict(opts))
    print('  ops          :', dict(ops))
    print('  requests     :', dict(reqs.most_common(60)))
    print('  set options  :', dict(setopts))
