#!/usr/bin/env python3
"""archive a confirmed seeded change under /verif/seeded/<id>/"""
import json, os, shutil, sys
sid, src, prop, caught, needs = sys.argv[1:6]
extra = sys.argv[6] if len(sys.argv) > 6 else ''
dst = os.path.join('/verif/seeded', sid)
os.makedirs(dst, exist_ok=True)
patch = os.path.join(src, 'seed_patch.diff')
shutil.copy(patch, os.path.join(dst, 'patch.diff'))
demo = open(os.path.join(src, 'seed_demo.py')).read().split('\n')
demo = [l for l in demo
        if "assert circus.__file__.startswith('/tmp/seed" not in l]
open(os.path.join(dst, 'demo.py'), 'w').write('\n'.join(demo))
notes = os.path.join(src, 'seed_notes.md')
if os.path.exists(notes):
    shutil.copy(notes, os.path.join(dst, 'notes.md'))
meta = {
    'id': sid, 'property': prop,
    'origin': 'written by a fresh sub-agent that was given only the text of '
              'the property and its own scratch worktree',
    'needs_to_manifest': needs,
    'confirmed': 'tools/seedcheck.sh: in a fresh scratch worktree of /repo '
                 'HEAD the demo passes on the unchanged tree and fails with '
                 'patch.diff applied; the listed checks were run with '
                 'VERIF_REPO pointing at the patched worktree (quick tier)',
    'caught_by': [c for c in caught.split(',') if c],
    'notes': extra,
}
json.dump(meta, open(os.path.join(dst, 'meta.json'), 'w'), indent=1)
print('saved', dst)
