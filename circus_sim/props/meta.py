"""Manifest metadata per property (level, assurance text, trusted base)."""
ORDER = ['C%02d' % i for i in range(1, 21)]

_NOTE = ('trusted base: the simulator itself (SimLoop, SimKernel, fake ZeroMQ) '
         'and its kernel model, which selftest conformance compares call by '
         'call with real psutil/os.waitpid; sampling, not enumeration; code '
         'below the seams (real fork/exec, preexec_fn, libzmq) is not run')
_TECH = 'deterministic simulation with fault injection'

META = {
    'C07': {
        'level': 'exploration',
        'text': 'real listening CircusSockets (127.0.0.1 port 0, unix paths) '
                'owned by the real Arbiter, watchers with and without '
                'use_sockets referring to them in both syntaxes and any '
                'letter case, histories of deaths, restart, reload, incr / '
                'decr, kill over several worker generations; at every '
                'simulated process creation the descriptor table the child '
                'would have after exec is computed from the daemon\'s real '
                'descriptor table and compared with the socket inodes '
                'recorded at start-up; bind / listen / close call counts, a '
                'real connect() and listsockets at quiescent points; '
                'file-backed daemons with reloadconfig, a quarter of them '
                'with httpd = True (the built-in circushttpd socket)',
        'note': _NOTE + '; so_reuseport sockets (bound per worker by design) '
                'are not generated',
        'technique': _TECH + ' (child descriptor table computed at every '
                     'simulated exec)'},
    'C12': {
        'level': 'exploration',
        'text': 'daemons loaded from generated ini files and driven through '
                '1-8 seeded edits (add / remove watcher, numprocesses only, '
                'cmd, env sections, other options, options absent from the '
                'defaults, reverts, no-op rewrites, a managed socket '
                'section and edits of it), each followed by a '
                'waiting reloadconfig; after every reload, at quiescence, '
                'the daemon is compared with a fresh daemon started on the '
                'same file in a second simulator universe (watcher set, '
                'options replies, live workers, command lines, '
                'environments), and worker pids with those before the reload',
        'note': _NOTE + '; PYTHONHASHSEED fixed because reload_from_config '
                'iterates sets of names; statuses are compared through the '
                'number of live workers',
        'technique': _TECH + ' (history vs fresh-start twin universe)'},
    'C08': {
        'level': 'exploration',
        'text': 'the real circusd.main() runs inside the simulator on '
                'generated ini files (watchers with stubborn / slow workers, '
                'real inet and unix managed sockets, a real pid file with '
                'seeded pre-existing content); requests, worker deaths, '
                'SIGHUP, daemon restarts and finally quit or SIGTERM / SIGINT '
                '/ SIGQUIT are armed beforehand and delivered by the '
                'scheduler at seeded times, loop steps and kernel-call '
                'boundaries, with requests and deaths racing the shutdown; '
                'judged: exit status 0 within a configuration-derived bound, '
                'no live child in the kernel, fake zmq sockets and managed '
                'sockets closed, unix paths and pid file gone, signal '
                'handlers restored; start-up half: live foreign pid refuses, '
                'every other pid-file content is taken over',
        'note': _NOTE + '; the window in which the old signal handlers are '
                'restored during a daemon restart cannot be simulated (the '
                'default action would kill the process)',
        'technique': _TECH + ' (circusd.main under the seeded scheduler, '
                     'signal delivery at step / kernel-call boundaries)'},
    'C17': {
        'level': 'exploration',
        'text': 'watchers with collecting stdout/stderr streams and 1-4 '
                'concurrent writer workers on real os.pipe pairs registered '
                'with a real epoll; seeded write plans (1 B .. 70 kB chunks '
                'around the Redirector buffer and the pipe capacity, delays, '
                'early channel close, exit right after the last write) with '
                'position-identifiable content, sibling kills, incr/decr, '
                'step costs that make draining span periodic checks; every '
                'record is checked to be a labelled prefix of what its '
                'writer wrote, completeness at quiescence, EOF handling, '
                'handler invocation counts, descriptor accounting '
                '(/proc/self/fd) and Redirector bookkeeping',
        'note': _NOTE + '; descriptor numbers are reused as in production '
                '(the simulated worker keeps its write ends at high numbers)',
        'technique': _TECH + ' (real pipes and epoll under the seeded '
                     'scheduler, byte-level prefix oracle)'},
    'C20': {
        'level': 'exploration',
        'text': 'FileStream driven on a real scratch directory with a '
                'virtual clock through seeded histories of writes (valid '
                'UTF-8 chunks around max_bytes, multi-byte, with/without '
                'newlines), close / re-open / restart (new FileStream on the '
                'same path) and pre-existing active and backup files (with '
                'gaps), with and without time_format; after every operation '
                'the files are compared with the logical log (contiguous '
                'unduplicated tail, backup count and numbering, active size '
                'below max_bytes, line prefixes, exact copy without '
                'rotation). thorough adds a systematic sweep of small '
                'parameters',
        'note': 'trusted base: the reference model in props/c20.py; the only '
                'disk faults injected are one transient rename / remove error '
                'inside a rollover or one failing flush (a tenth of the '
                'random cases: the failed write is not owed - after a '
                'failed flush it may still arrive, once - contiguity and '
                'later writes are); no torn or short writes; the scheduling dimension of the technique does not '
                'apply to this single-caller surface, its history dimension '
                '(durable state across close/reopen/restart) does',
        'technique': _TECH + ' (history-driven reference-model check of '
                     'durable state; no scheduler involved)'},
    'C06': {
        'level': 'exploration',
        'text': 'daemon half: seeded sequences of control messages from four '
                'layers (arbitrary bytes; arbitrary JSON values; objects '
                'with id/command/properties/msg_type independently missing, '
                'null or ill-typed; every registered command in any letter '
                'case with valid, corrupted and unknown properties, waiting '
                'and cast on/off) against daemons with hook scripts and exec '
                'failures; every frame written to the ROUTER stream is '
                'attributed to its message (exactly one 2-frame reply with '
                'the message id and status ok/error, none for casts, '
                'liveness probe). client half: CircusClient and '
                'AsyncCircusClient calls over a simulated transport with '
                'delay, duplication, reordering, loss and injected stale / '
                'foreign / null-id replies, checked for id filtering and '
                'timeout timing on the virtual clock; the synchronous '
                'client is also scheduled late (frames queue up in its '
                'socket; the simulated DEALER honours ZMQ_CONFLATE)',
        'note': _NOTE + '; multi-frame requests, quit and daemon restart '
                'messages are outside the daemon-half claim (C08)',
        'technique': _TECH + ' (frame-level reply accounting; client calls '
                     'over a faulty simulated transport)'},
    'C15': {
        'level': 'exploration',
        'text': 'daemons loaded from generated ini files, driven through '
                'seeded sequences of add / add+start / rm / rm nostop / start '
                '/ stop / reloadconfig over a small name pool with case '
                'variants, the empty name and unusual names; after every '
                'operation, at quiescence, list / status / stats / '
                'numwatchers are compared with each other and with a '
                'reference directory, case variants of every name must reach '
                'the same watcher, removed names must be reusable and their '
                'workers reaped (kept with nostop)',
        'note': _NOTE + '; PYTHONHASHSEED fixed because reload_from_config '
                'iterates sets of names',
        'technique': _TECH + ' (reference-model comparison of the four '
                     'directory views after every operation)'},
    'C11': {
        'level': 'exploration',
        'text': 'seeded sequences of requests, each corrupted in a known way '
                '(invalid JSON, unknown command/watcher, missing or ill-typed '
                'property, invalid option key/type/unusable value with the '
                'bad option at every position of multi-option set/add '
                'requests, bad signal, duplicate name in any case, singleton '
                'numprocesses, endpoint-owner mismatch, conflict with an '
                'operation in flight) against daemons with stopped and active '
                'watchers; for every synchronous error reply the snapshot '
                'taken before the dispatch must equal the one taken after '
                '(directory, options, env, hooks, statuses, pids, kernel '
                'spawn/signal logs, published events, loop queues)',
        'note': _NOTE + '; the snapshot reads Arbiter/Watcher attributes '
                '(white-box)',
        'technique': _TECH + ' (before/after state snapshots around every '
                     'refused dispatch)'},
    'C13': {
        'level': 'exploration',
        'text': 'seeded watcher configurations whose cmd/args come from a '
                'token grammar (quotes, escapes, circus.wid / circus.env.X '
                'references in both syntaxes and any case, unknown '
                'references, literal dollars; string and list args; shell; '
                'env with/without copy_env; working_dir), run through '
                'histories of deaths, incr, decr, reload, restart; every '
                'simulated process creation (argv, env, cwd, shell) is '
                'compared with an independent reading of the documented '
                'rules, worker ids are read back from argv',
        'note': _NOTE + '; values that themselves contain circus reference '
                'syntax and the deprecated $WID are not generated',
        'technique': _TECH + ' (process-creation arguments captured by the '
                     'simulated kernel vs a reference reader)'},
    'C18': {
        'level': 'exploration',
        'text': 'seeded lives with forking workers (children, grandchildren) '
                'and signal / kill requests whose pid, childpid, children, '
                'recursive and signum fields are drawn from own, foreign, '
                'dead and unknown pids and from every signal designation '
                'class (all signal.Signals members in all spellings, '
                'SIGRTMIN+n, near misses, non-signal module names); '
                'confinement is judged inside the simulated kernel at '
                'delivery time, the delivered (pid, signal) set per request '
                'against a reference computed from the kernel table',
        'note': _NOTE + '; workers that die from an injected fault during '
                'the dispatch, and descendants then unreachable through '
                'them, may legitimately be missed',
        'technique': _TECH + ' (kernel signal log judged at delivery time)'},
    'C19': {
        'level': 'exploration',
        'text': 'seeded sets of 2-5 watchers (priorities with ties and '
                'negatives, numprocesses, per-watcher and global warmup '
                'delays, autostart flags) started by the daemon start, start '
                '(all), start/restart with globs, with worker deaths during '
                'the sequence; the kernel spawn log with exact virtual '
                'timestamps is checked for order, non-interleaving and '
                'pacing',
        'note': _NOTE, 'technique': _TECH + ' (spawn log with virtual '
                'timestamps)'},
    'C14': {
        'level': 'fault_enumeration',
        'text': 'systematic enumeration of hook outcome assignments (all '
                '3^4*2^4 start-phase combinations x obedient/stubborn worker '
                'x numprocesses 1/2 in the thorough tier, a seeded 10 % '
                'sample in the quick tier; all stop-hook and signal-hook '
                'assignments; hook pairs across phases), each executed as a '
                'simulated daemon life and judged against a reference model '
                'of the documented gating (end state, kernel process table '
                'after the grace period, hook call sequence, spawn count, '
                'signal log, hook_success/hook_failure events); plus seeded '
                'random lives with per-call varying hook scripts and deaths '
                'at kernel-call boundaries',
        'note': _NOTE + '; before_stop/after_stop/before_signal/after_signal '
                'exceptions count as true (Watcher documents them as always '
                'ignored)',
        'technique': _TECH + ' (systematic hook-outcome enumeration against '
                     'a reference model)'},
    'C03': {
        'level': 'exploration',
        'text': 'seeded random lives whose workers react to the stop signal '
                'after delays on both sides of and exactly at '
                'graceful_timeout and its 0.1 s polling edges, ignore it, or '
                'die by themselves; all termination causes (stop, restart, '
                'decr, set, reload modes, kill request with signum / '
                'graceful_timeout overrides, max_age); stop_children with '
                'child processes. every termination episode in the kernel '
                'signal log is judged on exact virtual timestamps (tolerance '
                '1 us + charged step/spawn costs)',
        'note': _NOTE + '; exits inside the last polling step are the gray '
                'zone of the statement and accepted either way',
        'technique': _TECH + ' (per-pid signal log with virtual timestamps)'},
    'C04': {
        'level': 'fault_enumeration',
        'text': 'seeded random lives over 2-4 watchers with hook outcome '
                'scripts, exec failures at the n-th Popen and deaths at '
                'kernel-call boundaries, plus a systematic sweep (a death '
                'before every kernel call of start / incr / set / reload / '
                'restart base scenarios); at every quiescent point the list / '
                'numprocesses / stats / status replies are compared with the '
                'simulated kernel table',
        'note': _NOTE, 'technique': _TECH + ' (views versus simulated process '
                'table at quiescent points)'},
    'C10': {
        'level': 'exploration',
        'text': 'request A (waiting; succeeding, failing synchronously, '
                'failing asynchronously via hook exceptions / exec failures) '
                'with state-changing requests B delivered after a seeded or, '
                'in the sweep, every number of loop steps of A; refused B must '
                'leave an identical daemon snapshot, an accepted B is only '
                'legitimate when A had already finished (no timer wait between '
                "B's dispatch and A's reply), a probe request must be accepted "
                'after every history',
        'note': _NOTE + '; the snapshot reads Arbiter/Watcher attributes '
                '(white-box) to detect any effect of a refused request',
        'technique': _TECH + ' (overlap sweep with before/after state '
                     'snapshots)'},
    'C01': {
        'level': 'exploration',
        'text': 'seeded random daemon lives with worker exits, external '
                'kills, incr/decr/set/restart/reload/kill requests placed at '
                'kernel-call boundaries, loop steps and virtual times; after '
                'the faults stop the kernel process table must show exactly '
                'numprocesses live workers per active watcher, equal to the '
                'list reply, after a configuration-derived number of periodic '
                'checks; then five further checks must neither spawn nor '
                'signal (fixpoint); completed restart/reload replies are '
                'checked for freshness of every live worker',
        'note': _NOTE, 'technique': _TECH + ' (convergence and fixpoint '
                'oracle on the simulated process table)'},
    'C02': {
        'level': 'fault_enumeration',
        'text': 'seeded random lives plus a systematic sweep: for seeded base '
                'scenarios (stop / restart / rm / quit on obedient, slow and '
                'stubborn workers) a worker death (exit or SIGKILL) is '
                'injected before every kernel call of the stop sequence for '
                'every worker; at the reply every pid spawned before the '
                'request must be reaped in the kernel, views must say '
                'stopped/0/[]; afterwards any spawn for a stopped watcher '
                'before a start-class request is a violation; in 6 % of '
                'the lives a signal is refused with EPERM (the n-th one, or '
                'the first SIGKILL inside an overlapping kill / stop): the '
                'next stop finishes the job and the loop must stay alive',
        'note': _NOTE, 'technique': _TECH + ' (death at every kernel-call '
                'boundary of the stop sequence)'},
    'C05': {
        'level': 'exploration',
        'text': 'seeded random lives emphasising kill/signal requests '
                'overlapping exclusive operations, stubborn and slow workers '
                'and exec failures; virtual time consumed inside one loop '
                'step is measured through the patched time.sleep (limit 0.25 '
                's, unbounded spins detected and attributed by stack), '
                'read-only requests must be answered when their dispatch '
                'returns, accepted waiting requests within a configuration-'
                'derived bound',
        'note': _NOTE, 'technique': _TECH + ' (blocked-time accounting per '
                'loop step, bounded-liveness oracle)'},
    'C09': {
        'level': 'fault_enumeration',
        'text': 'systematic sweep (a worker death with every exit status / '
                'terminating signal in turn before every kernel call of a '
                'periodic check and of incr / decr / set / reload base '
                'scenarios) plus '
                'seeded random daemon lives (real Arbiter/Watcher/Controller '
                'on the simulator) with worker deaths of every exit status / '
                'terminating signal placed at kernel-call boundaries, loop '
                'steps and virtual times relative to periodic checks and '
                'incr/decr/set/reload/restart/stop requests; the captured PUB '
                'stream is checked against the kernel process table at every '
                'quiescent point and over the whole history',
        'note': _NOTE, 'technique': _TECH + ' (history check of the event '
                'stream against the simulated process table)'},
}
