"""Simulated kernel: process table, signals, wait statuses, psutil.Popen stand-in.

Semantics follow Linux + CPython 3.12 `subprocess` + psutil 7.2 as exercised by
circus; `selftest conformance` compares them with real processes call by call.
"""
import errno
import os
import signal
import stat

import psutil
from psutil import NoSuchProcess

PIPE = -1
DAEMON_PID = 4242
FIRST_PID = 5000

SIGKILL = int(signal.SIGKILL)
SIGSTOP = int(signal.SIGSTOP)
SIGCONT = int(signal.SIGCONT)
SIGTERM = int(signal.SIGTERM)

# default dispositions
_IGNORED = {int(signal.SIGCHLD), int(signal.SIGWINCH), int(signal.SIGURG),
            int(signal.SIGCONT)}
_STOPPING = {int(signal.SIGSTOP), int(signal.SIGTSTP), int(signal.SIGTTIN),
             int(signal.SIGTTOU)}
_CORE = {int(signal.SIGQUIT), int(signal.SIGILL), int(signal.SIGABRT),
         int(signal.SIGFPE), int(signal.SIGSEGV), int(signal.SIGBUS),
         int(signal.SIGSYS), int(signal.SIGTRAP), int(signal.SIGXCPU),
         int(signal.SIGXFSZ)}
VALID_SIGNALS = set(range(1, 65))   # kill(2) accepts 1..64 (_NSIG-1) on Linux
# 32/33 are reserved by glibc but kill(2) itself accepts them


def default_fatal(sig):
    return sig not in _IGNORED and sig not in _STOPPING


def status_exit(code):
    return (code & 0xff) << 8


def status_signal(sig):
    return sig | (0x80 if sig in _CORE else 0)


def _simulated(exc):
    """marks an exception the real system call would raise as well (not a
    harness bug when it shows up in a logged traceback)"""
    exc.simulated = True
    return exc


class Behaviour(object):
    """How a simulated process reacts.

    ignore      : set of catchable signals it ignores ('all' = every catchable)
    react_delay : seconds between a fatal catchable signal and its death
    react_exit  : None -> dies *by* the signal (default action);
                  int  -> catches it and exits with that code
    lifetime    : None or seconds after spawn at which it dies by itself
    self_status : wait status used for the self-inflicted death
    children    : list of Behaviour for children it forks at start
    latency     : death latency for uncatchable/default-action deaths
    orphan_exit : children die when their parent dies
    """
    __slots__ = ('ignore', 'react_delay', 'react_exit', 'lifetime',
                 'self_status', 'children', 'latency', 'orphan_exit',
                 'writer', 'label', 'reaps_children', 'late_children')

    def __init__(self, ignore=(), react_delay=0.0, react_exit=None,
                 lifetime=None, self_status=0, children=(), latency=0.0,
                 orphan_exit=False, writer=None, label='obedient',
                 reaps_children=True, late_children=()):
        # late_children: forked by the signal handler when the first
        # catchable signal arrives (a helper started during the shutdown)
        self.late_children = list(late_children)
        self.ignore = ignore
        self.react_delay = react_delay
        self.react_exit = react_exit
        self.lifetime = lifetime
        self.self_status = self_status
        self.children = list(children)
        self.latency = latency
        self.orphan_exit = orphan_exit
        self.writer = writer
        self.label = label
        self.reaps_children = reaps_children

    def ignores(self, sig):
        if sig in (SIGKILL, SIGSTOP):
            return False
        if self.ignore == 'all':
            return True
        return sig in self.ignore

    def describe(self):
        d = {'label': self.label}
        if self.ignore:
            d['ignore'] = 'all' if self.ignore == 'all' else sorted(self.ignore)
        if self.react_delay:
            d['react_delay'] = self.react_delay
        if self.react_exit is not None:
            d['react_exit'] = self.react_exit
        if self.lifetime is not None:
            d['lifetime'] = self.lifetime
            d['self_status'] = self.self_status
        if self.children:
            d['children'] = [c.describe() for c in self.children]
        if self.latency:
            d['latency'] = self.latency
        return d


class PipeEnd(object):
    """write end of a real pipe shared by a worker and its descendants"""
    __slots__ = ('fd', 'refs', 'closed')

    def __init__(self, fd):
        self.fd = fd
        self.refs = 0
        self.closed = False

    def acquire(self):
        self.refs += 1
        return self

    def release(self):
        self.refs -= 1
        if self.refs <= 0 and not self.closed:
            self.closed = True
            try:
                os.close(self.fd)
            except OSError:
                pass


class Proc(object):
    __slots__ = ('pid', 'ppid', 'argv', 'kw', 'state', 'wstatus', 'beh',
                 'children', 'marker', 'spawn_time', 'spawn_seq', 'spawn_call',
                 'stdout_w', 'stderr_w', 'popen', 'pending', 'death_time',
                 'death_cause', 'death_seq', 'reaped_by', 'dying', 'fdtable',
                 'orig_parent', 'term_first', 'written', 'wid',
                 'late_forked', 'forked_by', 'spawn_step', 'leader_gone',
                 'death_step')

    def __init__(self, pid, ppid, argv, kw, beh):
        self.pid = pid
        self.ppid = ppid
        self.orig_parent = ppid
        self.argv = argv
        self.kw = kw
        self.state = 'running'
        self.wstatus = None
        self.beh = beh
        self.children = []
        self.marker = None
        self.spawn_time = 0.0
        self.spawn_seq = 0
        self.spawn_call = 0
        self.stdout_w = None
        self.stderr_w = None
        self.popen = None
        self.pending = []
        self.death_time = None
        self.death_step = None
        self.death_cause = None
        self.death_seq = None
        self.reaped_by = None
        self.dying = None
        self.fdtable = None
        self.term_first = None
        self.written = None
        self.wid = None
        self.late_forked = False
        self.forked_by = None     # signal log entry whose handler forked it
        self.spawn_step = 0
        # the main thread has exited (pthread_exit) while other threads go
        # on: /proc and psutil call the process a zombie, waitpid() does not
        # report it before the last thread is gone
        self.leader_gone = False

    @property
    def alive(self):
        return self.state in ('running', 'stopped')


class SimKernel(object):
    def __init__(self, sim, behaviour_for=None, spawn_cost=0.001,
                 exec_fail_plan=None, want_fdtable=False):
        self.sim = sim
        self.procs = {}
        self.next_pid = FIRST_PID
        self.foreign = set()          # pids that exist but are not ours
        self.spawns = []              # Proc objects in spawn order
        self.signals = []             # dicts
        self.waits = []
        self.popen_calls = 0
        self.exec_fail_plan = exec_fail_plan or {}   # n -> errno
        self.exec_failures = 0
        self.exec_fail_from = None   # (n, marker or None): every exec from
        #                              the n-th on (of that watcher) fails
        # n-th send_signal() of the daemon to one of its workers -> EPERM
        # (a worker that changed its credentials; psutil: AccessDenied)
        self.signal_fail_plan = {}
        self.send_signal_calls = 0
        self.signal_failures = 0
        self.behaviour_for = behaviour_for or (lambda k, a, kw, n: Behaviour())
        self.spawn_cost = spawn_cost
        self.want_fdtable = want_fdtable
        self.fault_stopped = False
        self.break_spin = set()       # pids for which waitpid answers ECHILD
        self.sender = None            # callable -> attribution string
        self.on_signal = None         # hook(entry) evaluated at delivery time
        self.sig_context = None       # callable -> extra facts for the signal log
        self.on_spawn = None
        self.on_death = None
        self.getpid_value = DAEMON_PID
        self.io_pending = 0           # writer plans still to write
        self.pending_marker = None
        self.spin_broken = False      # after a recorded hang: waitpid gives up

    # ------------------------------------------------------------ process api
    def _new_pid(self):
        pid = self.next_pid
        self.next_pid += 1
        return pid

    def spawn(self, ppid, argv, kw, beh):
        p = Proc(self._new_pid(), ppid, argv, kw, beh)
        p.spawn_time = self.sim.now
        p.spawn_seq = self.sim.rec('spawn', p.pid, ppid)
        p.spawn_call = self.sim.ncalls
        p.spawn_step = self.sim.steps
        self.procs[p.pid] = p
        if ppid in self.procs:
            self.procs[ppid].children.append(p.pid)
        return p

    def _start_children(self, p):
        for cb in p.beh.children:
            c = self.spawn(p.pid, ['child-of-%d' % p.pid], {}, cb)
            c.marker = p.marker
            if p.stdout_w is not None:
                c.stdout_w = p.stdout_w.acquire()
            if p.stderr_w is not None:
                c.stderr_w = p.stderr_w.acquire()
            self._arm_lifetime(c)
            self._start_children(c)

    def _arm_lifetime(self, p):
        if p.beh.lifetime is not None and not self.fault_stopped:
            pid = p.pid
            st = p.beh.self_status
            self.sim.at_time(p.spawn_time + p.beh.lifetime,
                             lambda: self.die(pid, st, 'self'), 'self_exit')

    def fault_stop(self):
        """no more spontaneous deaths; later spawns are immortal and obedient"""
        self.fault_stopped = True
        self.exec_fail_plan = {}
        h = self.sim._heap
        keep = [e for e in h if e[3] != 'self_exit']
        if len(keep) != len(h):
            import heapq
            h[:] = keep
            heapq.heapify(h)

    def die(self, pid, wstatus, cause):
        """the process terminates now (becomes a zombie or vanishes)"""
        p = self.procs.get(pid)
        if p is None or not p.alive:
            return False
        p.wstatus = wstatus
        p.death_time = self.sim.now
        p.death_step = self.sim.steps
        p.death_cause = cause
        p.death_seq = self.sim.rec('death', pid, wstatus, cause)
        parent = self.procs.get(p.ppid)
        if p.ppid == self.getpid_value:
            p.state = 'zombie'
        elif parent is not None and parent.alive and \
                not parent.beh.reaps_children:
            p.state = 'zombie'     # stays a zombie below its (lazy) parent
        else:
            p.state = 'reaped'     # reaped at once by its parent / init
            p.reaped_by = 'parent'
        for w in (p.stdout_w, p.stderr_w):
            if w is not None:
                w.release()
        p.stdout_w = p.stderr_w = None
        kids = list(p.children)
        p.children = []
        for c in kids:
            cp = self.procs.get(c)
            if cp is None:
                continue
            cp.ppid = 1
            if cp.state == 'zombie':
                cp.state = 'reaped'
                cp.reaped_by = 'init'
            if cp.alive and cp.beh.orphan_exit:
                self.die(c, status_signal(int(signal.SIGHUP)), 'orphan')
        if parent is not None and pid in parent.children \
                and p.state == 'reaped':
            parent.children.remove(pid)
        if self.on_death is not None:
            self.on_death(p)
        return True

    def _deliver(self, p, sig, origin):
        """signal `sig` takes effect on live process p. returns effect label.
        death causes are prefixed 'ext:' (environment) or 'sup:' (daemon)"""
        o = 'ext:' if origin == 'external' else 'sup:'
        if p.state == 'stopped' and sig not in (SIGKILL, SIGCONT):
            p.pending.append(sig)
            return 'pending'
        if sig == SIGCONT:
            if p.state == 'stopped':
                p.state = 'running'
                pend, p.pending = p.pending, []
                for s in pend:
                    if p.alive:
                        self._deliver(p, s, origin)
            return 'cont'
        if sig == SIGKILL:
            return self._schedule_death(p, status_signal(SIGKILL),
                                        p.beh.latency, o + 'sigkill')
        if sig in _STOPPING:
            if sig == SIGSTOP or not p.beh.ignores(sig):
                p.state = 'stopped'
                return 'stop'
            return 'ignored'
        if sig in _IGNORED:
            return 'noop'
        if p.beh.late_children and not getattr(p, 'late_forked', False):
            # the handler of the first catchable signal forks helpers
            p.late_forked = True
            for cb in p.beh.late_children:
                c = self.spawn(p.pid, ['late-child-of-%d' % p.pid], {}, cb)
                c.marker = p.marker
                c.forked_by = getattr(self, '_cur_entry', None) or 'external'
                if p.stdout_w is not None:
                    c.stdout_w = p.stdout_w.acquire()
                if p.stderr_w is not None:
                    c.stderr_w = p.stderr_w.acquire()
                self._arm_lifetime(c)
        if p.beh.ignores(sig):
            return 'ignored'
        if p.beh.react_exit is None:
            return self._schedule_death(p, status_signal(sig),
                                        p.beh.react_delay + p.beh.latency,
                                        o + 'signal')
        return self._schedule_death(p, status_exit(p.beh.react_exit),
                                    p.beh.react_delay + p.beh.latency,
                                    o + 'caught')

    def _schedule_death(self, p, wstatus, delay, cause):
        pid = p.pid
        if delay <= 0:
            self.die(pid, wstatus, cause)
            return 'died'
        t = self.sim.now + delay
        if p.dying is None or t < p.dying:
            p.dying = t
        # several deaths may be queued for one process; the earliest wins
        self.sim.at_time(t, lambda: self.die(pid, wstatus, cause), 'death')
        return 'will-die'

    def signal(self, pid, sig, via):
        """kill(2) semantics + log. `via` names the API the caller used."""
        sim = self.sim
        p = self.procs.get(pid)
        entry = {'t': sim.now, 'call': sim.ncalls, 'step': sim.steps,
                 'pid': pid, 'sig': sig, 'via': via,
                 'sender': self.sender() if self.sender else None}
        if self.sig_context is not None:
            entry['ctx'] = self.sig_context()
        if not isinstance(sig, int):
            raise _simulated(TypeError("an integer is required"))
        if sig < 0 or sig > 64:
            entry['effect'] = 'EINVAL'
            entry['seq'] = sim.rec('signal', pid, sig, 'EINVAL')
            self.signals.append(entry)
            raise OSError(errno.EINVAL, 'Invalid argument')
        if p is None or p.state == 'reaped':
            if pid in self.foreign:
                entry['effect'] = 'foreign'
                entry['seq'] = sim.rec('signal', pid, sig, 'foreign')
                self.signals.append(entry)
                if self.on_signal is not None:
                    self.on_signal(entry, None)
                return
            entry['effect'] = 'ESRCH'
            entry['seq'] = sim.rec('signal', pid, sig, 'ESRCH')
            self.signals.append(entry)
            raise ProcessLookupError(errno.ESRCH, 'No such process')
        if sig == 0:
            entry['effect'] = 'probe'
        elif p.state == 'zombie':
            entry['effect'] = 'zombie'
        else:
            if p.term_first is None:
                p.term_first = (sim.now, sig)
            self._cur_entry = entry
            try:
                entry['effect'] = self._deliver(p, sig, via)
            finally:
                self._cur_entry = None
        entry['seq'] = sim.rec('signal', pid, sig, entry['effect'])
        self.signals.append(entry)
        if self.on_signal is not None:
            self.on_signal(entry, p)

    def external_signal(self, pid, sig):
        """a signal sent by somebody else than the daemon (the environment)"""
        p = self.procs.get(pid)
        if p is None or not p.alive:
            return False
        self.sim.rec('extsignal', pid, sig)
        self._deliver(p, sig, 'external')
        return True

    def external_exit(self, pid, code):
        return self.die(pid, status_exit(code), 'exit')

    def reuse_pid(self, pid):
        """the pid of a process that has been waited for is handed out again
        - to a process that has nothing to do with the daemon"""
        old = self.procs.get(pid)
        if old is None or old.state != 'reaped':
            return False
        p = Proc(pid, 1, ['stranger'], {}, Behaviour(label='stranger'))
        p.orig_parent = 1
        p.spawn_time = self.sim.now
        p.spawn_seq = self.sim.rec('pid_reused', pid)
        self.reused = getattr(self, 'reused', {})
        self.reused[pid] = old
        self.procs[pid] = p
        return True

    def external_leader_exit(self, pid):
        """the main thread of the process exits, its other threads go on"""
        p = self.procs.get(pid)
        if p is None or not p.alive:
            return False
        p.leader_gone = True
        self.sim.rec('leader_exit', pid)
        return True

    # --------------------------------------------------------------- waitpid
    def waitpid(self, pid, options):
        sim = self.sim
        sim.boundary('waitpid')
        me = self.getpid_value
        if self.spin_broken or pid in self.break_spin:
            raise ChildProcessError(errno.ECHILD, 'No child processes')
        if pid == -1:
            zs = [p for p in self.procs.values()
                  if p.ppid == me and p.state == 'zombie']
            if zs:
                zs.sort(key=lambda p: p.death_seq)
                p = zs[0]
                return self._reap(p, 'waitpid(-1)')
            if any(p.ppid == me and p.alive for p in self.procs.values()):
                self.waits.append((sim.now, -1, 0, 0))
                return (0, 0)
            raise ChildProcessError(errno.ECHILD, 'No child processes')
        p = self.procs.get(pid)
        if p is None or p.ppid != me or p.state == 'reaped':
            raise ChildProcessError(errno.ECHILD, 'No child processes')
        if p.state == 'zombie':
            return self._reap(p, 'waitpid(pid)')
        if not (options & os.WNOHANG):
            raise RuntimeError('blocking waitpid on a live process: the '
                               'simulated daemon would block forever')
        self.waits.append((sim.now, pid, 0, 0))
        return (0, 0)

    def waitid(self, idtype, ident, options):
        """os.waitid(P_PID, pid, WEXITED | WNOHANG | WNOWAIT): a probe that
        does not collect"""
        self.sim.boundary('waitid')
        me = self.getpid_value
        p = self.procs.get(ident)
        if idtype != os.P_PID or p is None or p.ppid != me or \
                p.state == 'reaped':
            raise ChildProcessError(errno.ECHILD, 'No child processes')
        if p.state == 'zombie':
            if not (options & os.WNOWAIT):
                self._reap(p, 'waitid')
            return (p.pid, p.wstatus)
        if not (options & os.WNOHANG):
            # the caller - the whole event loop - sleeps in the kernel until
            # the process can be waited for (modelled as 1 ms naps so that
            # the blocked time is accounted for and an endless wait is
            # recognised like the reap spin)
            self.waits.append((self.sim.now, ident, 0, 0))
            while p.state not in ('zombie', 'reaped'):
                if self.spin_broken:
                    raise ChildProcessError(errno.ECHILD,
                                            'No child processes')
                self.sim.sleep(0.001)
            if p.state == 'reaped':
                raise ChildProcessError(errno.ECHILD, 'No child processes')
            if not (options & os.WNOWAIT):
                self._reap(p, 'waitid')
            return (p.pid, p.wstatus)
        return None

    def _reap(self, p, by):
        p.state = 'reaped'
        p.reaped_by = by
        self.sim.rec('reap', p.pid, p.wstatus, by)
        self.waits.append((self.sim.now, p.pid, p.pid, p.wstatus))
        return (p.pid, p.wstatus)

    def kill(self, pid, sig):
        """os.kill as used by Pidfile.validate"""
        self.sim.boundary('os.kill')
        if pid > 2147483647 or pid < -2147483648:
            raise _simulated(
                OverflowError('signed integer is greater than maximum'))
        if pid <= 0:
            raise RuntimeError('os.kill on a process group: %r' % pid)
        if pid == self.getpid_value:
            if sig == 0:
                return
            raise RuntimeError('daemon signals itself')
        if pid in getattr(self, 'foreign_eperm', ()):
            # a live process of another user: it exists, we may not signal it
            raise _simulated(PermissionError(errno.EPERM,
                                             'Operation not permitted'))
        self.signal(pid, sig, 'os.kill')

    # ------------------------------------------------------------- inspection
    def children_of_daemon(self):
        me = self.getpid_value
        return [p for p in self.procs.values() if p.orig_parent == me]

    def live_by_marker(self, marker):
        me = self.getpid_value
        return [p for p in self.procs.values()
                if p.orig_parent == me and p.marker == marker and p.alive]

    def descendants(self, pid):
        out = []
        stack = [pid]
        while stack:
            q = stack.pop()
            p = self.procs.get(q)
            if p is None:
                continue
            for c in p.children:
                out.append(c)
                stack.append(c)
        return out

    def close_all(self):
        for p in self.procs.values():
            for w in (p.stdout_w, p.stderr_w):
                if w is not None and not w.closed:
                    w.closed = True
                    try:
                        os.close(w.fd)
                    except OSError:
                        pass
            p.stdout_w = p.stderr_w = None
            po = p.popen
            if po is not None:
                for f in (po.stdout, po.stderr):
                    if f is not None:
                        try:
                            f.close()
                        except Exception:
                            pass


def compute_fdtable(kw):
    """descriptor table the child would have after exec. When the caller
    gave a preexec_fn (circus dup2()s the stdin socket, sets ids and limits
    there) it is really run - in a forked child of this process that reports
    its table through a pipe and leaves at once; CPython runs preexec_fn
    before it closes descriptors, so does this."""
    pre = kw.get('preexec_fn')
    if pre is None or not hasattr(os, 'fork'):
        return _fdtable_here(kw)
    import json as _json
    r, w = os.pipe()
    pid = os.fork()
    if pid == 0:
        code = 0
        try:
            os.close(r)
            try:
                pre()
                out = {'table': dict((str(k), list(v)) for k, v in
                                     _fdtable_here(kw, skip=(w,)).items())}
            except BaseException as e:      # noqa
                out = {'error': repr(e)}
            data = _json.dumps(out).encode('utf8')
            while data:
                n = os.write(w, data)
                data = data[n:]
        except BaseException:               # noqa
            code = 1
        finally:
            os._exit(code)
    os.close(w)
    chunks = []
    while True:
        b = os.read(r, 65536)
        if not b:
            break
        chunks.append(b)
    os.close(r)
    try:
        os.waitpid(pid, 0)
    except OSError:
        pass
    try:
        out = _json.loads(b''.join(chunks).decode('utf8'))
    except ValueError:
        return _fdtable_here(kw)
    if 'table' not in out:
        t = _fdtable_here(kw)
        t['preexec_error'] = out.get('error')
        return t
    return dict((int(k), tuple(v)) for k, v in out['table'].items())


def _fdtable_here(kw, skip=()):
    """POSIX/CPython rules applied to the descriptors of this process"""
    table = {}
    close_fds = kw.get('close_fds', True)
    pass_fds = set(kw.get('pass_fds', ()))
    try:
        fds = [int(x) for x in os.listdir('/proc/self/fd')]
    except OSError:
        fds = list(range(0, 256))
    for fd in sorted(fds):
        if fd in skip:
            continue
        try:
            st = os.fstat(fd)
        except OSError:
            continue
        if fd in (0, 1, 2):
            table[fd] = (st.st_dev, st.st_ino, stat.S_IFMT(st.st_mode))
            continue
        if close_fds:
            if fd in pass_fds:
                table[fd] = (st.st_dev, st.st_ino, stat.S_IFMT(st.st_mode))
            continue
        try:
            inh = os.get_inheritable(fd)
        except OSError:
            continue
        if inh:
            table[fd] = (st.st_dev, st.st_ino, stat.S_IFMT(st.st_mode))
    return table


class _InfoMixin(object):
    """constant fake statistics for circus.util.get_info"""

    def memory_info(self):
        self._probe()
        return (1024 * 1024, 4 * 1024 * 1024)

    def cpu_percent(self, interval=None):
        if interval:
            # (psutil samples twice, interval seconds apart: it sleeps)
            import time as _t
            _t.sleep(interval)
        self._probe()
        return 0.0

    def memory_percent(self):
        self._probe()
        return 0.1

    def cpu_times(self):
        self._probe()
        return (0.01, 0.01)

    def nice(self):
        self._probe()
        return 0

    def cmdline(self):
        self._probe()
        a = self._proc().argv
        return list(a) if isinstance(a, (list, tuple)) else [a]

    def create_time(self):
        return self._proc().spawn_time

    def username(self):
        self._probe()
        return 'sim'


class SimChild(_InfoMixin):
    """psutil.Process of a worker's descendant"""

    def __init__(self, kernel, pid):
        self.kernel = kernel
        self.pid = pid

    def _proc(self):
        p = self.kernel.procs.get(self.pid)
        if p is None:
            # the world this object belonged to has been closed (objects of a
            # finished episode being finalised): the process is gone
            raise _simulated(NoSuchProcess(self.pid))
        return p

    def _probe(self):
        p = self.kernel.procs.get(self.pid)
        if p is None or p.state == 'reaped':
            raise NoSuchProcess(self.pid)

    def send_signal(self, sig):
        k = self.kernel
        k.sim.boundary('child.send_signal')
        try:
            k.signal(self.pid, sig, 'child.send_signal')
        except ProcessLookupError:
            raise NoSuchProcess(self.pid)

    def children(self, recursive=False):
        return _children(self.kernel, self.pid, recursive)

    def status(self):
        self._probe()
        p = self._proc()
        if p.leader_gone and p.state == 'running':
            return psutil.STATUS_ZOMBIE
        return {'running': psutil.STATUS_RUNNING,
                'stopped': psutil.STATUS_STOPPED,
                'zombie': psutil.STATUS_ZOMBIE}[p.state]

    def is_running(self):
        p = self.kernel.procs.get(self.pid)
        return p is not None and p.state != 'reaped'


def _children(kernel, pid, recursive):
    p = kernel.procs.get(pid)
    if p is None or p.state == 'reaped':
        raise NoSuchProcess(pid)
    if not recursive:
        return [SimChild(kernel, c) for c in sorted(p.children)]
    # psutil's traversal order: stack based, children appended in pid order
    ret = []
    stack = [pid]
    seen = set()
    while stack:
        q = stack.pop()
        if q in seen:
            continue
        seen.add(q)
        qp = kernel.procs.get(q)
        if qp is None:
            continue
        for c in sorted(qp.children):
            ret.append(SimChild(kernel, c))
            stack.append(c)
    return ret


class SimPopen(_InfoMixin):
    """stand-in for psutil.Popen, bound to a kernel through make_popen()"""
    kernel = None

    def __init__(self, args, cwd=None, shell=False, preexec_fn=None, env=None,
                 close_fds=True, executable=None, stdout=None, stderr=None,
                 **other):
        k = self.kernel
        sim = k.sim
        sim.boundary('Popen')
        k.popen_calls += 1
        n = k.popen_calls
        kw = dict(cwd=cwd, shell=shell, env=env, close_fds=close_fds,
                  executable=executable, stdout=stdout, stderr=stderr,
                  preexec_fn=preexec_fn)
        kw.update(other)
        self.returncode = None
        self.stdout = None
        self.stderr = None
        self._gone = False
        if k.spawn_cost:
            sim.advance(k.spawn_cost)
        err = k.exec_fail_plan.get(n)
        if err is None and k.exec_fail_from is not None and \
                n >= k.exec_fail_from[0] and \
                (k.exec_fail_from[1] is None or
                 k.exec_fail_from[1] in ' '.join(map(str, args))
                 if isinstance(args, (list, tuple)) else True):
            # a command that cannot be executed (for good): ENOENT
            err = 2
        if err is not None:
            k.exec_failures += 1
            sim.rec('execfail', n, err)
            raise OSError(err, os.strerror(err))
        beh = k.behaviour_for(k, args, kw, n)
        p = k.spawn(k.getpid_value, args, kw, beh)
        p.popen = self
        p.marker = k.pending_marker
        self.pid = p.pid
        self.args = args
        # the read ends are blocking in reality (subprocess.PIPE); here they
        # are non-blocking so that a read on an empty pipe - which would hang
        # the real daemon - surfaces as EAGAIN and can be reported
        # subprocess creates both pipes, forks, then closes the write ends in
        # the parent: the simulated worker's write ends are moved out of the
        # way (high numbers) so that descriptor numbers are reused in the
        # daemon exactly as they would be in production
        pipes = []
        for want in (stdout, stderr):
            pipes.append(os.pipe() if want == PIPE else None)
        ends = []
        for pr in pipes:
            if pr is None:
                ends.append((None, None))
                continue
            r, w = pr
            w2 = _move_high(w)
            os.set_blocking(w2, False)
            os.set_blocking(r, False)
            ends.append((r, w2))
        if ends[0][0] is not None:
            p.stdout_w = PipeEnd(ends[0][1]).acquire()
            self.stdout = os.fdopen(ends[0][0], 'rb', 0)
        if ends[1][0] is not None:
            p.stderr_w = PipeEnd(ends[1][1]).acquire()
            self.stderr = os.fdopen(ends[1][0], 'rb', 0)
        if k.want_fdtable:
            flt = getattr(k, 'preexec_filter', None)
            if flt is not None and flt(p):
                p.fdtable = compute_fdtable(kw)
            else:
                p.fdtable = _fdtable_here(kw)
        self._mine = p
        k.spawns.append(p)
        k._arm_lifetime(p)
        k._start_children(p)
        if k.on_spawn is not None:
            k.on_spawn(p)

    def _reused(self):
        """the pid now belongs to another process (psutil compares the
        creation time and refuses)"""
        mine = getattr(self, '_mine', None)
        return mine is not None and \
            self.kernel.procs.get(self.pid) is not mine

    def _proc(self):
        p = self.kernel.procs.get(self.pid)
        if p is None:
            # the world this object belonged to has been closed (objects of a
            # finished episode being finalised): the process is gone
            raise _simulated(NoSuchProcess(self.pid))
        if self._reused():
            raise _simulated(NoSuchProcess(self.pid))
        return p

    def _probe(self):
        if self._proc().state == 'reaped':
            raise NoSuchProcess(self.pid)

    # subprocess.Popen.poll -> _internal_poll
    def poll(self):
        k = self.kernel
        k.sim.boundary('poll')
        if self.returncode is not None:
            return self.returncode
        p = self._proc()
        if p.state == 'zombie':
            k._reap(p, 'poll')
            st = p.wstatus
            if st & 0x7f:
                self.returncode = -(st & 0x7f)
            else:
                self.returncode = (st >> 8) & 0xff
        elif p.state == 'reaped':
            self.returncode = 0          # ECHILD branch of _internal_poll
        return self.returncode

    def wait(self, timeout=None):
        rc = self.poll()
        if rc is not None:
            return rc
        if timeout is None:
            raise RuntimeError('blocking wait() on a live simulated process')
        self.kernel.sim.sleep(timeout)
        rc = self.poll()
        if rc is None:
            raise psutil.TimeoutExpired(timeout, self.pid)
        return rc

    def send_signal(self, sig):
        k = self.kernel
        k.sim.boundary('send_signal')
        if self._gone or self._reused():
            raise NoSuchProcess(self.pid)
        k.send_signal_calls += 1
        if sig == 9 and k.signal_fail_plan.get(-9):
            # (plan key -9: the first SIGKILLs are refused)
            k.signal_fail_plan[-9] -= 1
            k.signal_failures += 1
            k.sim.rec('signal_eperm', self.pid, sig)
            raise _simulated(psutil.AccessDenied(self.pid))
        if k.send_signal_calls in k.signal_fail_plan:
            k.signal_failures += 1
            k.sim.rec('signal_eperm', self.pid, sig)
            raise _simulated(psutil.AccessDenied(self.pid))
        try:
            k.signal(self.pid, sig, 'send_signal')
        except ProcessLookupError:
            self._gone = True
            raise NoSuchProcess(self.pid)

    def terminate(self):
        k = self.kernel
        k.sim.boundary('terminate')
        if self._gone or self._reused():
            raise NoSuchProcess(self.pid)
        try:
            k.signal(self.pid, SIGTERM, 'terminate')
        except ProcessLookupError:
            self._gone = True
            raise NoSuchProcess(self.pid)

    def kill(self):
        k = self.kernel
        k.sim.boundary('kill')
        if self._reused():
            raise NoSuchProcess(self.pid)
        try:
            k.signal(self.pid, SIGKILL, 'kill')
        except ProcessLookupError:
            self._gone = True
            raise NoSuchProcess(self.pid)

    def status(self):
        k = self.kernel
        k.sim.boundary('status')
        p = self._proc()
        if p.state == 'reaped':
            raise NoSuchProcess(self.pid)
        if p.leader_gone and p.state == 'running':
            return psutil.STATUS_ZOMBIE
        return {'running': psutil.STATUS_RUNNING,
                'stopped': psutil.STATUS_STOPPED,
                'zombie': psutil.STATUS_ZOMBIE}[p.state]

    def is_running(self):
        k = self.kernel
        k.sim.boundary('is_running')
        if self._gone:
            return False
        if self._proc().state == 'reaped':
            self._gone = True
            return False
        return True

    def children(self, recursive=False):
        k = self.kernel
        k.sim.boundary('children')
        return _children(k, self.pid, recursive)


def _move_high(fd, floor=[None]):
    """dup fd to a high descriptor number and close the original"""
    import fcntl
    if floor[0] is None:
        try:
            import resource
            soft = resource.getrlimit(resource.RLIMIT_NOFILE)[0]
        except Exception:
            soft = 1024
        floor[0] = max(64, min(soft // 2, 4096))
    try:
        new = fcntl.fcntl(fd, fcntl.F_DUPFD_CLOEXEC, floor[0])
    except OSError:
        return fd
    os.close(fd)
    return new


def make_popen(kernel):
    return type('SimPopenBound', (SimPopen,), {'kernel': kernel})
