"""Determinism self-test: same seed -> same event-log digest, twice in one
process, in a fresh interpreter, and under another PYTHONHASHSEED."""
import json
import os
import random
import subprocess
import sys

from . import runner
from . import props as props_mod

VERIF = os.path.dirname(os.path.dirname(os.path.abspath(__file__)))


def digests(prop_id, n, tier='quick', master=7):
    prop = runner.get_prop(prop_id)
    out = []
    for i in range(n):
        seed = runner.run_seed(master, prop_id, tier, i)
        case = prop.gen(random.Random(seed), tier, seed)
        res = prop.run(case)
        out.append([res.get('digest'), len(res.get('violations', [])),
                    res.get('sig')])
    return out


def implemented():
    out = []
    for pid in props_mod.IDS:
        if os.path.exists(os.path.join(VERIF, 'circus_sim', 'props',
                                       pid.lower() + '.py')):
            out.append(pid)
    return out


def main(rest):
    if rest and rest[0] == 'digests':
        print(json.dumps(digests(rest[1], int(rest[2]))))
        return 0
    n = int(os.environ.get('VERIF_DET_N', 40))
    ids = [r for r in rest if r.startswith('C')] or implemented()
    bad = 0
    for pid in ids:
        a = digests(pid, n)
        b = digests(pid, n)
        same_proc = a == b
        res = {}
        for hs in ('0', '1'):
            env = dict(os.environ)
            env['VERIF_HASHSEED'] = hs
            env['PYTHONHASHSEED'] = hs
            p = subprocess.run([sys.executable, '-m', 'circus_sim', 'selftest',
                                'determinism', 'digests', pid, str(n)],
                               cwd=VERIF, env=env, capture_output=True,
                               text=True, timeout=1200)
            try:
                res[hs] = json.loads(p.stdout.strip().splitlines()[-1])
            except Exception:
                res[hs] = 'error: ' + p.stderr[-500:]
        fresh = res['0'] == a
        other = res['1'] == a
        prop = runner.get_prop(pid)
        need_other = not getattr(prop, 'hashseed_sensitive', False)
        ok = same_proc and fresh and (other or not need_other)
        if not ok:
            bad += 1
        nd = sum(1 for x in a if x[0] is None)
        print('%s: %d seeds  twice-in-process=%s fresh-interpreter=%s '
              'hashseed1=%s%s  (runs without digest: %d)'
              % (pid, n, same_proc, fresh, other,
                 '' if need_other else ' (not required: reloadconfig iterates '
                 'sets)', nd))
        if not fresh and isinstance(res['0'], list):
            for i, (x, y) in enumerate(zip(a, res['0'])):
                if x != y:
                    print('   first difference at index', i, x, y)
                    break
    print('determinism: %d properties, %d failures' % (len(ids), bad))
    return 0 if bad == 0 else 2
