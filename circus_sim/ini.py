"""Render circus ini files for the config-driven harnesses (C08, C12, C15)."""


def render(circus=None, watchers=(), sockets=(), env=None, env_sections=()):
    out = ['[circus]']
    c = {'check_delay': 1, 'endpoint': 'tcp://127.0.0.1:5555',
         'pubsub_endpoint': 'tcp://127.0.0.1:5556',
         'stats_endpoint': 'tcp://127.0.0.1:5557', 'statsd': 'False'}
    c.update(circus or {})
    if c.get('statsd') in (False, 'False'):
        c.pop('stats_endpoint', None)
        c.pop('statsd', None)
    for k, v in c.items():
        if v is not None:
            out.append('%s = %s' % (k, v))
    out.append('')
    if env:
        out.append('[env]')
        for k, v in env.items():
            out.append('%s = %s' % (k, v))
        out.append('')
    for s in sockets:
        out.append('[socket:%s]' % s['name'])
        for k, v in s.items():
            if k != 'name':
                out.append('%s = %s' % (k, v))
        out.append('')
    for w in watchers:
        out.append('[watcher:%s]' % w['name'])
        for k, v in w.items():
            if k in ('name', 'mix', 'marker'):
                continue
            if isinstance(v, bool):
                v = 'True' if v else 'False'
            out.append('%s = %s' % (k, v))
        out.append('')
    for name, items in env_sections:
        out.append('[env:%s]' % name)
        for k, v in items.items():
            out.append('%s = %s' % (k, v))
        out.append('')
    return '\n'.join(out)
