"""Importable hook functions for daemons built from a configuration file
(hooks are given there by dotted name). The world of the running episode
sets RECORDER so that their calls appear in its hook log like those of the
scripted hooks."""

# (the daemon re-imports this module when a hook is set at run time: the
# recorder survives the reload)
RECORDER = globals().get('RECORDER')


def _note(watcher, hook_name, out, kw):
    if RECORDER is not None:
        RECORDER(getattr(watcher, 'name', '?'), hook_name, out, kw)


def veto(watcher, arbiter, hook_name, **kw):
    _note(watcher, hook_name, 'false', kw)
    return False


def agree(watcher, arbiter, hook_name, **kw):
    _note(watcher, hook_name, 'true', kw)
    return True


def fail(watcher, arbiter, hook_name, **kw):
    from .world import ScriptedFailure
    _note(watcher, hook_name, 'raise', kw)
    raise ScriptedFailure('hook %s scripted failure' % hook_name)
