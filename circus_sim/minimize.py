"""Delta-debugging of a failing case: drop operations (ddmin), then apply the
property's own simplifications, keeping a candidate only if the *same oracle*
still fires."""
import copy


def _fails(prop, case, oracle, budget):
    if budget[0] <= 0:
        return False
    budget[0] -= 1
    try:
        res = prop.run(case)
    except Exception:
        return False
    return any(v['oracle'] == oracle for v in res.get('violations', []))


def minimize(prop, case, oracle, max_runs=300):
    budget = [max_runs]
    if not isinstance(case, dict):
        return case, 0
    best = copy.deepcopy(case)
    key = 'ops' if isinstance(best.get('ops'), list) else None
    if key:
        ops = best[key]
        n = 2
        while len(ops) >= 1 and budget[0] > 0:
            chunk = max(1, len(ops) // n)
            reduced = False
            i = 0
            while i < len(ops) and budget[0] > 0:
                cand_ops = ops[:i] + ops[i + chunk:]
                cand = dict(best)
                cand[key] = cand_ops
                if _fails(prop, cand, oracle, budget):
                    ops = cand_ops
                    best = cand
                    reduced = True
                else:
                    i += chunk
            if not reduced:
                if chunk == 1:
                    break
                n = min(len(ops), n * 2) if len(ops) else 1
            else:
                n = max(2, n - 1)
            if not ops:
                break
    simp = getattr(prop, 'simplify', None)
    if simp is not None:
        progress = True
        while progress and budget[0] > 0:
            progress = False
            for cand in simp(best):
                if budget[0] <= 0:
                    break
                if _fails(prop, cand, oracle, budget):
                    best = cand
                    progress = True
                    break
    return best, max_runs - budget[0]
