"""Simulation core: virtual clock, environment-event queue, placements, SimLoop.

One `Sim` object is one simulated world-time.  Everything that is not the
daemon's own code (worker deaths, frame deliveries, signals to the daemon,
file edits) is an *environment event* queued here and fired

  * at a virtual time            -> `at_time`
  * after n further loop steps   -> `after_steps`
  * before the k-th next kernel call (inside a supervisor step) -> `at_boundary`

The loop (`SimLoop`) is a real asyncio selector loop whose clock is `Sim.now`
and whose `_run_once` never blocks: when nothing is runnable the clock jumps to
the next timer or environment event (discrete-event time).
"""
from time import thread_time as _perf   # CPU time: immune to descheduling
import asyncio
import heapq
import random
import selectors
import time as _time_mod

_real_time = _time_mod.time
_real_sleep = _time_mod.sleep
_real_monotonic = _time_mod.monotonic

EPOCH = 10000.0          # virtual clock start; small so that float resolution
#                          is ~1e-12 and deadline arithmetic stays within 1 us

_CUR = [None]            # the Sim whose clock time.time() reads (None: real)


def current():
    return _CUR[0]


def _patched_time():
    s = _CUR[0]
    if s is None:
        return _real_time()
    # the wall clock: the simulator's (monotonic) clock plus whatever steps
    # the wall clock was given (NTP correction, date -s, VM resume)
    return s.now + s.wall_offset


def _patched_sleep(d):
    s = _CUR[0]
    if s is None:
        return _real_sleep(d)
    s.sleep(d)


def install_clock():
    """Replace time.time / time.sleep process-wide (idempotent)."""
    if _time_mod.time is not _patched_time:
        _time_mod.time = _patched_time
        _time_mod.sleep = _patched_sleep


class RunCap(Exception):
    """A per-run cap (steps / kernel calls / virtual time) was exceeded."""


class Sim(object):
    def __init__(self, seed, step_cost=0.0, max_steps=20000, max_calls=20000,
                 max_vtime=7200.0):
        self.seed = seed
        self.rng = random.Random(seed)
        self.now = EPOCH
        self.wall_offset = 0.0     # wall clock - monotonic clock
        self.seq = 0               # global event sequence number
        self.steps = 0             # loop steps executed
        self.ncalls = 0            # kernel calls (boundary index)
        self.step_cost = step_cost
        self.max_steps = max_steps
        self.max_calls = max_calls
        self.max_vtime = max_vtime
        self._heap = []            # (time, seq, fn, tag)
        self._step_events = []     # [remaining_steps, seq, fn, tag]
        self._bound_events = []    # [remaining_calls, seq, fn, tag]
        self._firing = False
        self.in_step = False
        self.step_blocked = 0.0    # virtual time slept inside current step
        self.step_cpu = 0.0        # CPU seconds the last loop step computed
        self.step_sleeps = 0
        self.step_calls = 0
        self.max_calls_per_step = 20000
        self.max_step_blocked = 0.0
        self.blocked_total = 0.0   # all virtual time spent in time.sleep()
        self.blocked_reports = []  # (time, step, blocked, nsleeps, stack)
        self.hung = None           # description of an unbounded spin
        self.capped = None
        self.spin_hook = None      # called(sim) from sleep() when spinning
        self.block_hook = None     # called once per step beyond block_limit
        self.block_limit = 0.25
        self._block_seen = False
        self.on_boundary = None    # hook(name) for reach probes
        self.fired = {}            # tag -> count of env events actually fired
        self.log = []              # generic event log (tuples) for digests
        self.log_enabled = True

    # ---------------------------------------------------------------- logging
    def rec(self, *ev):
        self.seq += 1
        if self.log_enabled:
            self.log.append((self.seq, round(self.now - EPOCH, 9)) + ev)
        return self.seq

    # ------------------------------------------------------------- placements
    def at_time(self, t, fn, tag='env'):
        self.seq += 1
        heapq.heappush(self._heap, (t, self.seq, fn, tag))

    def after(self, dt, fn, tag='env'):
        self.at_time(self.now + dt, fn, tag)

    def after_steps(self, n, fn, tag='env'):
        self.seq += 1
        self._step_events.append([n, self.seq, fn, tag])

    def at_boundary(self, k, fn, tag='env'):
        self.seq += 1
        self._bound_events.append([k, self.seq, fn, tag])

    def pending_env(self, tags=None):
        """number of queued environment events (optionally only some tags)"""
        n = 0
        for coll in (self._heap,):
            for e in coll:
                if tags is None or e[3] in tags:
                    n += 1
        for coll in (self._step_events, self._bound_events):
            for e in coll:
                if tags is None or e[3] in tags:
                    n += 1
        return n

    def next_env_time(self):
        return self._heap[0][0] if self._heap else None

    def _count(self, tag):
        self.fired[tag] = self.fired.get(tag, 0) + 1

    def fire_due(self):
        if self._firing:
            return
        self._firing = True
        try:
            h = self._heap
            while h and h[0][0] <= self.now:
                t, s, fn, tag = heapq.heappop(h)
                self._count(tag)
                fn()
        finally:
            self._firing = False

    # ------------------------------------------------------------------ clock
    def advance(self, dt):
        if dt > 0:
            self.now += dt
        if self.now - EPOCH > self.max_vtime and not self.capped:
            self.capped = 'vtime'
        self.fire_due()

    def advance_to(self, t):
        if t > self.now:
            self.now = t
        if self.now - EPOCH > self.max_vtime and not self.capped:
            self.capped = 'vtime'
        self.fire_due()

    def sleep(self, d):
        """time.sleep() called by code under test: blocks the current step."""
        if d < 0:
            raise ValueError("sleep length must be non-negative")
        self.step_blocked += d
        self.blocked_total += d
        self.step_sleeps += 1
        self.advance(d)
        if self.block_hook is not None and not self._block_seen and \
                self.step_blocked > self.block_limit:
            self._block_seen = True
            self.block_hook(self)
        if self.step_sleeps > 200 and self.spin_hook is not None:
            self.spin_hook(self)

    # --------------------------------------------------------------- boundary
    def boundary(self, name):
        """Entry of a kernel call made by the code under test."""
        self.ncalls += 1
        if self.ncalls > self.max_calls and not self.capped:
            self.capped = 'calls'
        if self.in_step:
            self.step_calls = getattr(self, 'step_calls', 0) + 1
            if self.step_calls > self.max_calls_per_step:
                # one loop step goes on making system calls without end and
                # without sleeping (a retry loop that never gives up): the
                # loop is dead; break out so that the episode can end
                if not self.hung:
                    from .world import _circus_stack
                    self.hung = {'pid': None, 'stack': _circus_stack(),
                                 'sleeps': self.step_sleeps,
                                 'blocked': self.step_blocked,
                                 'step': self.steps, 't': self.now - EPOCH,
                                 'calls': self.step_calls}
                    self.rec('hung_calls', self.step_calls)
                e = RunCap('more than %d system calls in one loop step'
                           % self.max_calls_per_step)
                e.simulated = True      # (not a harness error when logged)
                raise e
        be = self._bound_events
        if be:
            due = None
            for e in be:
                e[0] -= 1
                if e[0] <= 0:
                    if due is None:
                        due = []
                    due.append(e)
            if due:
                for e in due:
                    be.remove(e)
                for e in due:
                    self._count(e[3])
                    e[2]()
        self.fire_due()
        if self.on_boundary is not None:
            self.on_boundary(name)

    # ------------------------------------------------------------------ steps
    def before_step(self):
        se = self._step_events
        if se:
            due = None
            for e in se:
                e[0] -= 1
                if e[0] <= 0:
                    if due is None:
                        due = []
                    due.append(e)
            if due:
                for e in due:
                    se.remove(e)
                for e in due:
                    self._count(e[3])
                    e[2]()
        self.fire_due()
        self.in_step = True
        self.step_blocked = 0.0
        self.step_sleeps = 0
        self.step_calls = 0
        self._block_seen = False

    def after_step(self):
        self.in_step = False
        self.steps += 1
        if self.step_blocked > self.max_step_blocked:
            self.max_step_blocked = self.step_blocked
        if self.step_cost:
            self.advance(self.step_cost)
        if self.steps > self.max_steps and not self.capped:
            self.capped = 'steps'


class SimLoop(asyncio.SelectorEventLoop):
    """asyncio selector loop on a virtual clock; never blocks in select()."""

    def __init__(self, sim):
        self._regorder = {}
        self._regseq = 0
        super().__init__(selectors.EpollSelector())
        self.sim = sim
        self._clock_resolution = 0.0
        self.stop_cond = None       # callable -> bool, checked after each step
        self.idle = False           # nothing will ever happen again
        self.after_step_hook = None
        self.io_events = 0
        self.idle_jumps = 0         # clock jumps because nothing was runnable
        self._leftover = False
        # a signal handler that runs while the loop sleeps in its poll: what it
        # queues with call_soon() is only noticed at the next wake-up (timer,
        # descriptor, call_soon_threadsafe) - the real loop does not wake up
        self.asleep_signal = False
        self._deferred = []

    def call_soon(self, callback, *args, context=None):
        h = super().call_soon(callback, *args, context=context)
        if self.asleep_signal:
            try:
                self._ready.remove(h)
            except ValueError:
                return h
            self._deferred.append(h)
        return h

    def call_soon_threadsafe(self, callback, *args, context=None):
        was = self.asleep_signal
        self.asleep_signal = False
        try:
            self._wake_deferred()
            return super().call_soon_threadsafe(callback, *args,
                                                context=context)
        finally:
            self.asleep_signal = was

    def _wake_deferred(self):
        if self._deferred:
            d, self._deferred = self._deferred, []
            for h in reversed(d):
                self._ready.appendleft(h)

    def time(self):
        return self.sim.now

    # keep a stable, fd-number independent order for readiness events
    def _add_reader(self, fd, callback, *args):
        f = fd if isinstance(fd, int) else fd.fileno()
        if f not in self._regorder:
            self._regseq += 1
            self._regorder[f] = self._regseq
        return super()._add_reader(fd, callback, *args)

    def _remove_reader(self, fd):
        f = fd if isinstance(fd, int) else fd.fileno()
        self._regorder.pop(f, None)
        return super()._remove_reader(fd)

    def _move_due_timers(self):
        sched = self._scheduled
        now = self.sim.now
        while sched:
            handle = sched[0]
            if handle._cancelled:
                heapq.heappop(sched)
                self._timer_cancelled_count -= 1
                handle._scheduled = False
                continue
            if handle._when > now:
                break
            heapq.heappop(sched)
            handle._scheduled = False
            self._ready.append(handle)

    def pending_timers(self):
        return [h for h in self._scheduled if not h._cancelled]

    def _run_once(self):
        sim = self.sim
        sched = self._scheduled
        while sched and sched[0]._cancelled:
            self._timer_cancelled_count -= 1
            handle = heapq.heappop(sched)
            handle._scheduled = False

        # after an early stop (stop condition reached in the middle of a
        # batch) the rest of that batch runs first: polling again would queue
        # a second callback for descriptors whose first one has not run yet
        if self._leftover and self._ready:
            event_list = None
        else:
            event_list = self._selector.select(0)
        self._leftover = False
        if event_list:
            if len(event_list) > 1:
                ro = self._regorder
                event_list.sort(key=lambda kv: ro.get(kv[0].fd, 0))
                sim.rng.shuffle(event_list)
            self.io_events += len(event_list)
            self._process_events(event_list)
        event_list = None
        self._move_due_timers()
        if self._ready and self._deferred:
            self._wake_deferred()       # the loop woke up for something else

        if not self._ready:
            # idle: discrete-event jump to the next timer / environment event
            t = sched[0]._when if sched else None
            te = sim.next_env_time()
            if te is not None and (t is None or te < t):
                t = te
            if t is None:
                if sim._step_events:
                    # only step-placed events left: they can never fire
                    sim._step_events = []
                self.idle = True
                self._stopping = True
                return
            self.idle_jumps += 1
            sim.advance_to(t)
            if sim.capped:
                self._stopping = True
                return
            self._move_due_timers()
            if self._ready and self._deferred:
                self._wake_deferred()
            if not self._ready:
                # only environment events fired (no step): the stop condition
                # (e.g. a virtual deadline) must still be honoured
                c = self.stop_cond
                if c is not None and c():
                    self._stopping = True
                return

        ntodo = len(self._ready)
        for i in range(ntodo):
            if not self._ready:
                break
            handle = self._ready.popleft()
            if handle._cancelled:
                continue
            sim.before_step()
            t0 = _perf()
            handle._run()
            sim.step_cpu = _perf() - t0
            sim.after_step()
            if self.after_step_hook is not None:
                self.after_step_hook()
            if sim.capped or sim.hung:
                self._stopping = True
                self._leftover = True
                break
            c = self.stop_cond
            if c is not None and c():
                self._stopping = True
                self._leftover = True
                break
        handle = None

    def run_sim(self, cond=None):
        """Run until cond() holds after a step, the loop is idle, or a cap."""
        self.stop_cond = cond
        self.idle = False
        try:
            self.run_forever()
        finally:
            self.stop_cond = None
