"""State snapshot of the simulated daemon (used by C10 / C11): everything a
refused request must leave untouched."""


def _hookname(h):
    return getattr(h, '__name__', repr(h))


def snapshot(world, with_queue=True):
    a = world.arbiter
    k = world.kernel
    ws = []
    for wt in a.watchers:
        opts = []
        for name in sorted(wt.optnames):
            try:
                if name in wt._options:
                    v = wt._options[name]
                else:
                    v = getattr(wt, name)
            except AttributeError:
                v = '<missing>'
            opts.append((name, repr(v)))
        ws.append((wt.name, wt._status, tuple(sorted(wt.processes)),
                   tuple(opts),
                   repr(sorted(wt.env.items())) if isinstance(wt.env, dict)
                   else repr(wt.env),
                   tuple(sorted((n, _hookname(h))
                                for n, h in wt.hooks.items())),
                   tuple(sorted(wt.ignore_hook_failure)),
                   wt.numprocesses, wt.singleton, wt.max_age,
                   repr(wt.stdout_stream_conf), repr(wt.stderr_stream_conf)))
    snap = {
        'watchers': tuple(ws),
        'names': tuple(sorted(a._watchers_names)),
        'slot': a._exclusive_running_command,
        'restarting': a._restarting,
        'stopping': a._stopping,
        'spawns': len(k.spawns),
        'signals': len(k.signals),
        'events': len(world.ctx.events),
        'sockets': tuple(sorted(a.sockets.keys())) if a.sockets else (),
    }
    if with_queue:
        snap['ready'] = len(world.loop._ready)
        snap['timers'] = len(world.loop.pending_timers())
    return snap


def diff(a, b):
    out = []
    for key in a:
        if a[key] != b.get(key):
            if key == 'watchers':
                da = dict((w[0], w) for w in a[key])
                db = dict((w[0], w) for w in b[key])
                for n in sorted(set(da) | set(db)):
                    if da.get(n) != db.get(n):
                        x, y = da.get(n), db.get(n)
                        if x is None or y is None:
                            out.append('watcher %s %s' % (
                                n, 'added' if x is None else 'removed'))
                            continue
                        labels = ['name', 'status', 'pids', 'options', 'env',
                                  'hooks', 'ignore_hook_failure',
                                  'numprocesses', 'singleton', 'max_age',
                                  'stdout_stream', 'stderr_stream']
                        for i, lab in enumerate(labels):
                            if x[i] != y[i]:
                                if lab == 'options':
                                    ox, oy = dict(x[i]), dict(y[i])
                                    for o in sorted(set(ox) | set(oy)):
                                        if ox.get(o) != oy.get(o):
                                            out.append('%s.%s: %s -> %s' % (
                                                n, o, ox.get(o), oy.get(o)))
                                else:
                                    out.append('%s.%s: %r -> %r' % (
                                        n, lab, x[i], y[i]))
            else:
                out.append('%s: %r -> %r' % (key, a[key], b.get(key)))
    return out
