#!/bin/sh
# run the repository's pinned test suite (guard off: there are no hooks) and
# compare with /root/.vp/BASELINE.json stable_pass
OUT=${1:-/tmp/junit_baseline.xml}
cd /repo && timeout 1500 /venv/bin/python -m pytest -q -p no:cacheprovider --timeout=900 \
   --continue-on-collection-errors --junitxml=$OUT > /tmp/pytest_baseline.log 2>&1
/venv/bin/python - "$OUT" <<'PY'
import xml.etree.ElementTree as ET, json, sys
r = ET.parse(sys.argv[1]).getroot()
ts = r if r.tag == 'testsuite' else r[0]
base = json.load(open('/root/.vp/BASELINE.json'))
passed = set()
for tc in ts.iter('testcase'):
    if not [c for c in tc if c.tag in ('failure', 'error', 'skipped')]:
        passed.add(tc.attrib['classname'] + '::' + tc.attrib['name'])
missing = [n for n in base['stable_pass'] if n not in passed]
print('tests=%s failures=%s; baseline stable %d, missing now: %s'
      % (ts.attrib.get('tests'), ts.attrib.get('failures'),
         len(base['stable_pass']), missing))
sys.exit(1 if missing else 0)
PY
