#!/usr/bin/env python3
"""regenerate seeded/README.md from the meta.json files"""
import glob, json, os
root = os.path.join(os.path.dirname(__file__), '..', 'seeded')
rows = []
for d in sorted(glob.glob(os.path.join(root, 'S*'))):
    m = json.load(open(os.path.join(d, 'meta.json')))
    rows.append((os.path.basename(d), m))
out = ['# Seeded changes', '',
       'Source changes to circus-tent/circus that break one property while the',
       'package still imports and the repository\'s own tests still pass. Each was',
       'written by a fresh sub-agent that saw only the text of the property and its',
       'own scratch worktree, and was re-confirmed with `tools/seedcheck.sh` (demo',
       'passes on a clean scratch worktree, fails with `patch.diff`; the checks run',
       'with `VERIF_REPO` on the patched worktree). None is ever applied to /repo.',
       '`tools/seeded_all.sh` re-runs all of them. S01-S20: round 1; S21-S40:',
       'round 2 (a different mechanism per property was asked for).', '',
       '| seed | property | needs | caught by | notes |', '|---|---|---|---|---|']
for name, m in rows:
    out.append('| %s | %s | %s | %s | %s |' % (
        name, m['property'], m.get('needs_to_manifest', '').replace('|', '\\|'),
        ', '.join(m.get('caught_by', [])),
        (m.get('notes', '') + (' base_commit=%s' % m['base_commit']
                               if m.get('base_commit') else '')).replace('|', '\\|')))
open(os.path.join(root, 'README.md'), 'w').write('\n'.join(out) + '\n')
print(len(rows), 'seeds')
