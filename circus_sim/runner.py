"""Batch runner: seeded search over episodes on all cores, evidence, findings."""
import concurrent.futures as cf
import copy
import faulthandler
import hashlib
import json
import multiprocessing
import os
import random
import subprocess
import sys
import time
import traceback
from collections import Counter

from . import sim as simmod

VERIF = os.path.dirname(os.path.dirname(os.path.abspath(__file__)))
EVIDENCE_DIR = os.environ.get('VERIF_EVIDENCE_DIR') or \
    os.path.join(VERIF, 'evidence')
REPLAY_DIR = os.environ.get('VERIF_REPLAY_DIR') or \
    os.path.join(VERIF, 'replays')
KNOWN_FILE = os.path.join(VERIF, 'known_findings.txt')
DEFAULT_SEED = 20261002

_wall = simmod._real_time      # the wall clock is only used for budgets/evidence


def run_seed(master, prop_id, tier, i):
    h = hashlib.sha256(('%s/%s/%s/%d' % (master, prop_id, tier, i)).encode())
    return int.from_bytes(h.digest()[:6], 'big')


def get_prop(prop_id):
    from . import props
    return props.get(prop_id)


# --------------------------------------------------------------- findings
def load_known(path=KNOWN_FILE):
    out = []
    if not os.path.exists(path):
        return out
    for line in open(path):
        line = line.strip()
        if not line or line.startswith('#'):
            continue
        if not line.startswith('open:'):
            continue
        head, _, text = line[5:].partition('::')
        facts = {}
        for tok in head.split():
            if '=' in tok:
                k, v = tok.split('=', 1)
                facts[k] = v
        out.append({'facts': facts, 'text': text.strip(), 'line': line})
    return out


def match_known(known, prop_id, viol):
    """-> matching entry or None. every key=value of the entry must equal the
    corresponding fact of the violation."""
    facts = dict((k, str(v)) for k, v in viol.get('facts', {}).items())
    facts['oracle'] = viol['oracle']
    facts['property'] = prop_id
    for ent in known:
        f = ent['facts']
        if f.get('property') != prop_id:
            continue
        if all(facts.get(k) == v for k, v in f.items()):
            return ent
    return None


def viol_key(v):
    return (v['oracle'],) + tuple(sorted((k, str(x))
                                         for k, x in v.get('facts', {}).items()))


# ----------------------------------------------------------------- worker
def _run_one(prop, case):
    res = prop.run(case)
    return res


def worker_chunk(prop_id, tier, master, indices, wall_deadline, mode):
    """runs in a pool process. mode: 'random' (indices are run indexes) or
    'enum' (indices index into prop.enum_cases)."""
    faulthandler.enable()
    prop = get_prop(prop_id)
    agg = new_agg()
    enum_cases = None
    if mode == 'enum':
        enum_cases = prop.enum_cases(tier, master)
    for i in indices:
        if _wall() > wall_deadline:
            agg['skipped'] += 1
            continue
        # a hung episode must never look like success: kill the process
        faulthandler.dump_traceback_later(prop.episode_timeout, exit=True)
        try:
            if mode == 'enum':
                case = enum_cases[i]
                seed = case.get('cfg', {}).get('seed', i) \
                    if isinstance(case, dict) else i
            else:
                seed = run_seed(master, prop_id, tier, i)
                case = prop.gen(random.Random(seed), tier, seed)
            from . import world as _world
            del _world.HARNESS_ERRORS[:]
            res = prop.run(case)
            if _world.HARNESS_ERRORS:
                raise RuntimeError('exception in harness code inside a loop '
                                   'callback:\n' + _world.HARNESS_ERRORS[0])
        except Exception:
            agg['harness_errors'].append(
                {'index': i, 'mode': mode, 'tb': traceback.format_exc()[-3000:]})
            faulthandler.cancel_dump_traceback_later()
            if len(agg['harness_errors']) > 5:
                break
            continue
        faulthandler.cancel_dump_traceback_later()
        merge_result(agg, res, case, seed, mode, i)
    return agg


def new_agg():
    return {'evaluations': 0, 'nontrivial': 0, 'sigs': set(), 'fired': Counter(),
            'probes': Counter(), 'aborted': Counter(), 'vtime': 0.0,
            'steps': 0, 'calls': 0, 'samples': [], 'violations': [],
            'harness_errors': [], 'skipped': 0, 'viol_count': 0,
            'vgroups': Counter(),
            'seeds': [], 'enum': 0, 'ops': Counter()}


def merge_result(agg, res, case, seed, mode, index):
    for sub in res.get('multi') or ():
        merge_result(agg, sub, case, seed, mode, index)
    agg['evaluations'] += 1
    if mode == 'enum':
        agg['enum'] += 1
    if len(agg['seeds']) < 5:
        agg['seeds'].append(seed)
    for k, v in res.get('fired', {}).items():
        agg['fired'][k] += v
    for k, v in res.get('probes', {}).items():
        agg['probes'][k] += v
    for k, v in res.get('ops', {}).items():
        agg['ops'][k] += v
    if res.get('aborted'):
        agg['aborted'][res['aborted']] += 1
    st = res.get('stats') or {}
    agg['vtime'] += st.get('vtime', 0.0)
    agg['steps'] += st.get('steps', 0)
    agg['calls'] += st.get('calls', 0)
    if res.get('nontrivial') and res.get('sig'):
        agg['nontrivial'] += 1
        agg['sigs'].add(res['sig'])
    if len(agg['samples']) < 2 and (res.get('nontrivial') or mode == 'enum'):
        agg['samples'].append(sample_of(case, res))
    for v in res.get('violations', []):
        agg['viol_count'] += 1
        # keep a few per (oracle, facts) group, so that frequent (e.g. known)
        # groups can never crowd a rare new one out of the report
        key = viol_key(v) if isinstance(v, dict) else None
        n = agg['vgroups'][key]
        agg['vgroups'][key] += 1
        if n == 0 or (n < 3 and len(agg['violations']) < 200):
            vc = v.pop('case', None) if isinstance(v, dict) else None
            agg['violations'].append({'v': v, 'case': vc or case, 'seed': seed,
                                      'mode': mode, 'index': index,
                                      'key': key})


def sample_of(case, res):
    c = case
    if isinstance(case, dict) and 'ops' in case:
        c = {'cfg': _short(case.get('cfg')), 'ops': case['ops'][:30]}
    return {'case': c, 'sig': res.get('sig'), 'stats': res.get('stats')}


def _short(cfg):
    if not isinstance(cfg, dict):
        return cfg
    s = json.dumps(cfg, default=str)
    if len(s) < 3000:
        return cfg
    return {'seed': cfg.get('seed'), 'truncated': s[:3000]}


def merge_agg(a, b):
    for k in ('evaluations', 'nontrivial', 'skipped', 'viol_count', 'steps',
              'calls', 'enum'):
        a[k] += b[k]
    a['vtime'] += b['vtime']
    a['sigs'] |= b['sigs']
    for k in ('fired', 'probes', 'aborted', 'ops', 'vgroups'):
        a[k].update(b[k])
    for k in ('samples',):
        for s in b[k]:
            if len(a[k]) < 4:
                a[k].append(s)
    for s in b['seeds']:
        if len(a['seeds']) < 16:
            a['seeds'].append(s)
    a['violations'].extend(b['violations'])
    a['harness_errors'].extend(b['harness_errors'])


# ------------------------------------------------------------------ check
def check(prop_id, tier, master=None, jobs=None, budget=None, count=None,
          quiet=False):
    t0 = _wall()
    prop = get_prop(prop_id)
    if master is None:
        master = int(os.environ.get('VERIF_SEED', DEFAULT_SEED))
    if jobs is None:
        jobs = int(os.environ.get('VERIF_JOBS', min(16, os.cpu_count() or 1)))
    if budget is None:
        budget = float(os.environ.get(
            'VERIF_BUDGET', prop.budget.get(tier, 40)))
    if count is None:
        count = int(os.environ.get('VERIF_COUNT', prop.max_runs.get(tier, 10**9)))
    deadline = t0 + budget
    agg = new_agg()
    det = determinism_selfcheck(prop, prop_id, tier, master)
    chunk = prop.chunk
    enum_n = 0
    if hasattr(prop, 'enum_cases'):
        enum_n = len(prop.enum_cases(tier, master))
    tasks = []
    for s in range(0, enum_n, chunk):
        tasks.append(('enum', list(range(s, min(enum_n, s + chunk)))))
    exhaustive_enum = enum_n > 0
    ctx = multiprocessing.get_context('fork')
    broken = None
    enum_skipped = 0
    with cf.ProcessPoolExecutor(max_workers=jobs, mp_context=ctx) as ex:
        pending = set()
        next_index = 0
        ti = 0

        def submit_more():
            nonlocal next_index, ti
            while len(pending) < jobs * 2:
                if ti < len(tasks):
                    mode, idx = tasks[ti]
                    ti += 1
                    dl = deadline if not prop.enum_ignores_budget \
                        else t0 + prop.enum_hard_budget.get(tier, 3600)
                elif next_index < count and _wall() < deadline:
                    mode = 'random'
                    idx = list(range(next_index,
                                     min(count, next_index + chunk)))
                    next_index += chunk
                    dl = deadline
                else:
                    return
                fut = ex.submit(worker_chunk, prop_id, tier, master, idx, dl,
                                mode)
                fut.mode = mode
                pending.add(fut)
        submit_more()
        try:
            while pending:
                done, _ = cf.wait(pending, timeout=prop.episode_timeout * 2 +
                                  budget + 120,
                                  return_when=cf.FIRST_COMPLETED)
                if not done:
                    broken = 'timeout waiting for workers'
                    break
                for fut in done:
                    pending.discard(fut)
                    b = fut.result()
                    if fut.mode == 'enum':
                        enum_skipped += b['skipped']
                    merge_agg(agg, b)
                if len(agg['harness_errors']) > 20:
                    break
                submit_more()
        except cf.process.BrokenProcessPool as e:
            broken = 'worker process died (hang or crash): %r' % (e,)
        except Exception as e:       # pragma: no cover
            broken = 'runner failure: %r' % (e,)
        if broken:
            for f in pending:
                f.cancel()
    wall = _wall() - t0
    if det and not det.get('identical'):
        broken = (broken or '') + ' determinism self-check failed: %r' % det
    return finish_check(prop, tier, master, agg, wall, broken, quiet,
                        exhaustive_enum and not enum_skipped, enum_n, jobs,
                        det)


def determinism_selfcheck(prop, prop_id, tier, master, n=3):
    """reduced determinism self-test inside every check: the first seeds
    are executed twice in a forked child and the event-log digests compared
    (the full test is `selftest determinism`)"""
    ctx = multiprocessing.get_context('fork')
    try:
        with cf.ProcessPoolExecutor(max_workers=1, mp_context=ctx) as ex:
            return ex.submit(_det_worker, prop_id, tier, master, n).result(
                timeout=300)
    except Exception as e:      # pragma: no cover
        return {'identical': False, 'error': repr(e)}


def _det_worker(prop_id, tier, master, n):
    prop = get_prop(prop_id)
    out = []
    for rnd in range(2):
        ds = []
        for i in range(n):
            seed = run_seed(master, prop_id, tier, i)
            case = prop.gen(random.Random(seed), tier, seed)
            ds.append(prop.run(case).get('digest'))
        out.append(ds)
    return {'seeds': n, 'identical': out[0] == out[1],
            'digests_present': sum(1 for d in out[0] if d)}


def finish_check(prop, tier, master, agg, wall, broken, quiet, enum_complete,
                 enum_n, jobs, det=None):
    known = load_known()
    lines = []
    known_hits = Counter()
    new_groups = {}
    counted = set()
    for ent in agg['violations']:
        v = ent['v']
        k = match_known(known, prop.id, v)
        if k is not None:
            if ent.get('key') not in counted:
                counted.add(ent.get('key'))
                known_hits[k['line']] += agg['vgroups'].get(ent.get('key'), 1)
            continue
        new_groups.setdefault(viol_key(v), []).append(ent)
    exit_code = 0
    reported = []
    os.makedirs(REPLAY_DIR, exist_ok=True)
    order = []
    seen_or = set()
    for key, ents in sorted(new_groups.items(), key=lambda kv: str(kv[0])):
        if key[0] not in seen_or:
            seen_or.add(key[0])
            order.insert(len(seen_or) - 1, (key, ents))
        else:
            order.append((key, ents))
    for key, ents in order[:int(os.environ.get('VERIF_MAX_REPORTS', 8))]:
        ent = ents[0]
        path, mini, repro = report_violation(prop, ent, master, tier)
        reported.append({'oracle': ent['v']['oracle'], 'msg': ent['v']['msg'],
                         'facts': ent['v'].get('facts'), 'replay': path,
                         'count': agg['vgroups'].get(key, len(ents)), 'replay_reproduces': repro})
        lines.append('VIOLATION property=%s replay=%s' % (prop.id, path))
        lines.append('  oracle=%s %s' % (ent['v']['oracle'], ent['v']['msg']))
        exit_code = 1
    if len(new_groups) > 0:
        lines.append('violation groups (oracle, facts) -> episodes:')
        for key, ents in sorted(new_groups.items(), key=lambda kv: -len(kv[1])):
            lines.append('   %5d  %s' % (agg['vgroups'].get(key, len(ents)),
                                         key))
    for ent in known:
        if ent['facts'].get('property') != prop.id:
            continue
        line = ent['line']
        facts, _, text = line[5:].partition('::')
        lines.append('KNOWN-FINDING: property=%s %s (%d episodes in this run) '
                     ':: %s' % (prop.id, ' '.join(
                         t for t in facts.split()
                         if not t.startswith('property=')),
                         known_hits.get(line, 0), text.strip()))
    if broken or agg['harness_errors']:
        exit_code = 2 if exit_code == 0 else exit_code
        lines.append('HARNESS-ERROR property=%s %s' % (prop.id, broken or ''))
        try:
            hp = os.path.join(REPLAY_DIR, 'HARNESS-%s-%s-%s.json'
                              % (prop.id, tier, master))
            with open(hp, 'w') as f:
                json.dump({'property': prop.id, 'tier': tier,
                           'master_seed': master, 'broken': str(broken),
                           'errors': agg['harness_errors'][:10]}, f, indent=1)
            lines.append('  details (episode index, traceback): %s' % hp)
        except Exception:
            pass
        for he in agg['harness_errors'][:3]:
            lines.append(he['tb'])
    ev = build_evidence(prop, tier, master, agg, wall, reported, known_hits,
                        enum_complete, enum_n, jobs, broken)
    ev['coverage']['determinism_selfcheck'] = det
    os.makedirs(EVIDENCE_DIR, exist_ok=True)
    evpath = os.path.join(EVIDENCE_DIR, '%s.json' % prop.id)
    with open(evpath + '.tmp', 'w') as f:
        json.dump(ev, f, indent=1, sort_keys=True, default=str)
    os.replace(evpath + '.tmp', evpath)
    if not quiet:
        print('%s %s: %d episodes (%d systematic), %d distinct non-trivial '
              'schedules, %.0f sim-s, %.1fs wall, %d violations (%d known), '
              'aborted=%s' % (prop.id, tier, agg['evaluations'], agg['enum'],
                              len(agg['sigs']), agg['vtime'], wall,
                              agg['viol_count'], sum(known_hits.values()),
                              dict(agg['aborted'])))
        for ln in lines:
            print(ln)
        sys.stdout.flush()
    return exit_code


def report_violation(prop, ent, master, tier):
    from . import minimize
    v = ent['v']
    case = ent['case']
    try:
        mini, runs = minimize.minimize(prop, case, v['oracle'],
                                       max_runs=prop.minimize_runs)
    except Exception:
        mini, runs = case, -1
    name = '%s-%s-%s.json' % (prop.id, ent['seed'], v['oracle'][:40])
    path = os.path.join(REPLAY_DIR, name)
    doc = {'property': prop.id, 'oracle': v['oracle'], 'message': v['msg'],
           'facts': v.get('facts'), 'run_seed': ent['seed'],
           'master_seed': master, 'tier': tier, 'mode': ent['mode'],
           'hash_seed': os.environ.get('PYTHONHASHSEED'),
           'case': mini, 'original_case': case, 'minimize_runs': runs}
    with open(path, 'w') as f:
        json.dump(doc, f, indent=1, default=str)
    repro = None
    try:
        env = dict(os.environ)
        env['PYTHONHASHSEED'] = '0'
        p = subprocess.run([sys.executable, '-m', 'circus_sim', 'replay', path],
                           cwd=VERIF, env=env, capture_output=True, text=True,
                           timeout=300)
        repro = (p.returncode == 1 and 'VIOLATION' in p.stdout)
    except Exception:
        repro = False
    return path, mini, repro


def build_evidence(prop, tier, master, agg, wall, reported, known_hits,
                   enum_complete, enum_n, jobs, broken):
    n = agg['evaluations']
    cov = {
        'evaluations': n,
        'distinct_nontrivial': len(agg['sigs']),
        'rule': prop.rule,
        'samples': agg['samples'][:3] or [{'note': 'no sample recorded'}],
        'systematic_cases': agg['enum'],
        'systematic_space': enum_n,
        'exhaustive': bool(enum_complete and prop.enum_is_whole_space),
        'nontrivial_runs': agg['nontrivial'],
        'faults_fired': dict(agg['fired']),
        'reach_probes': dict(agg['probes']),
        'operations_executed': dict(agg['ops']),
        'aborted_episodes': dict(agg['aborted']),
        'simulated_seconds': round(agg['vtime'], 3),
        'loop_steps': agg['steps'],
        'kernel_calls': agg['calls'],
        'runs_per_hour': int(n / wall * 3600) if wall > 0 else 0,
        'seeds_sample': agg['seeds'][:8],
        'master_seed': master,
        'jobs': jobs,
        'components': prop.components,
        'violations_reported': reported,
        'known_finding_hits': dict(known_hits),
        'violating_episodes': agg['viol_count'],
        'harness_errors': len(agg['harness_errors']),
        'python_hash_seed': os.environ.get('PYTHONHASHSEED'),
        'technique': 'deterministic simulation with fault injection '
                     '(seeded schedule/fault search on a virtual-time loop)',
    }
    if broken:
        cov['broken'] = broken
    return {
        'property_id': prop.id,
        'tier': tier,
        'seed': int(master),
        'level': prop.level,
        'coverage': cov,
        'assumptions': prop.assumptions,
        'wall_s': round(wall, 3),
        'violations': len(reported),
    }


# ----------------------------------------------------------------- replay
def replay(path):
    doc = json.load(open(path))
    prop = get_prop(doc['property'])
    res = prop.run(doc['case'])
    want = doc.get('oracle')
    got = [v for v in res.get('violations', []) if v['oracle'] == want]
    known = load_known()
    if got:
        v = got[0]
        k = match_known(known, prop.id, v)
        if k is not None:
            print('KNOWN-FINDING: property=%s %s' % (prop.id, k['line']))
        print('VIOLATION property=%s replay=%s' % (prop.id, path))
        print('  oracle=%s %s' % (v['oracle'], v['msg']))
        print('  facts=%s' % json.dumps(v.get('facts'), default=str))
        print('  digest=%s' % res.get('digest'))
        return 1
    others = res.get('violations', [])
    print('not reproduced: oracle %s did not fire (%d other violations, '
          'aborted=%s)' % (want, len(others), res.get('aborted')))
    for v in others[:3]:
        print('  other: %s %s' % (v['oracle'], v['msg']))
    return 0
