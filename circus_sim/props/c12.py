"""C12 - reloadconfig converges to the file and disturbs only what changed."""
import copy
import json
import os
import re

from .base import Prop
from ..lifecycle import Episode
from ..world import World
from .. import ini

NAMES = ['alpha', 'beta', 'Gamma', 'delta']


def marker_of(name):
    return 'mk_' + name.lower()


def render(version, check_delay, part=None):
    """part: None = everything in one file; 'main' / 'inc' = the file split
    in two, the watchers named in version['inc'] (and their env sections)
    living in an included file"""
    inc = [n.lower() for n in version.get('inc') or []]
    ws = []
    for w in version['watchers']:
        if part == 'main' and w['name'].lower() in inc:
            continue
        if part == 'inc' and w['name'].lower() not in inc:
            continue
        ent = {'name': w['name'],
               'cmd': 'worker --marker=%s --wid=$(circus.wid)%s' % (
                   marker_of(w['name']), w.get('cmd_extra', '')),
               'numprocesses': w['np']}
        ent.update(w.get('opts', {}))
        ws.append(ent)
    envs = [(w['name'], w['env']) for w in version['watchers']
            if w.get('env') and w['name'] in [x['name'] for x in ws]]
    if part == 'inc':
        txt = ini.render(circus={}, watchers=ws, env_sections=envs)
        # (an included file has no [circus] section of its own)
        i = txt.find('\n\n')
        return txt[i + 2:] if i >= 0 else ''
    circus = {'check_delay': check_delay}
    if version.get('loglevel'):
        circus['loglevel'] = version['loglevel']
    if part == 'main':
        circus['include'] = '@SCRATCH@/inc.ini'
    txt = ini.render(circus=circus, watchers=ws,
                     env=version.get('env'), env_sections=envs)
    if version.get('socket'):
        # a managed socket (port 0: the fresh-start twin binds one of its own)
        txt += '\n[socket:web]\nhost = 127.0.0.1\nport = 0\nbacklog = %d\n' \
               % version['socket']['backlog']
    if version.get('plugin'):
        # a plugin runs as one more watcher ("plugin:NAME")
        txt += '\n[plugin:flap]\nuse = circus.plugins.flapping.Flapping\n' \
               'attempts = %d\n' % version['plugin']['attempts']
    return txt


def section_key(w, version):
    """what makes a watcher's effective settings (besides numprocesses)"""
    return json.dumps([w['name'], w.get('cmd_extra', ''),
                       # (a watcher that hands a managed socket to its
                       # workers is re-created when that section changes)
                       version.get('socket') if 'circus.sockets.web' in
                       w.get('cmd_extra', '') else None,
                       sorted(w.get('opts', {}).items()),
                       sorted((w.get('env') or {}).items()),
                       sorted((version.get('env') or {}).items())],
                      sort_keys=True)


class C12Episode(Episode):
    def setup(self):
        self.world = World(self.cfg)
        d = self.world.scratch_dir()
        self.ini_path = os.path.join(d, 'circus.ini')
        self.version = self.case['versions'][0]
        self.write(self.version)
        self.world.build_from_ini(self.ini_path)

    def write(self, version):
        d = os.path.dirname(self.ini_path)
        split = bool(version.get('inc'))
        txt = render(version, self.cfg.get('check_delay', 1.0),
                     'main' if split else None).replace('@SCRATCH@', d)
        self.put(self.ini_path, txt)
        inc = os.path.join(d, 'inc.ini')
        if split:
            self.put(inc, render(version, 0, 'inc').replace('@SCRATCH@', d))
        elif os.path.exists(inc):
            os.unlink(inc)

    def put(self, path, txt):
        """a file whose content does not change is not touched; one that
        returns to an earlier content is a backup put back (mv, cp -p,
        rsync -t): it comes with the time stamp it had then"""
        seen = self.__dict__.setdefault('mtimes', {})
        try:
            if open(path).read() == txt:
                return
        except OSError:
            pass
        with open(path, 'w') as f:
            f.write(txt)
        key = (path, txt)
        if key in seen:
            os.utime(path, ns=(seen[key], seen[key]))
            self.probes['backup_put_back'] += 1
        else:
            seen[key] = os.stat(path).st_mtime_ns

    def run_ops(self):
        for i, v in enumerate(self.case['versions'][1:]):
            if self.stopped() or self.world.daemon_gone():
                break
            if self.violations:
                break        # later discrepancies would only be echoes
            self.step(i + 1, v)

    # ------------------------------------------------------------ views
    def live(self):
        k = self.world.kernel
        me = k.getpid_value
        out = {}
        for p in k.procs.values():
            if p.orig_parent == me and p.alive:
                out.setdefault(p.marker, []).append(p)
        return out

    def views(self, world):
        """what a client can see of the daemon + the workers' command lines"""
        old = self.world
        self.world = world
        try:
            sts = self.ask('status', {})
            names = sorted(sts['statuses']) if isinstance(sts, dict) and \
                'statuses' in sts else None
            out = {'names': names, 'watchers': {}}
            k = world.kernel
            me = k.getpid_value
            for n in names or []:
                o = self.ask('options', {'name': n})
                opts = o.get('options') if isinstance(o, dict) else None
                if isinstance(opts, dict):
                    opts = dict(opts)
                procs = [p for p in k.procs.values() if p.orig_parent == me
                         and p.alive and p.marker == marker_of(n)]
                def norm(argv):
                    # worker ids and descriptor numbers are the daemon's
                    # own business: '--wid=7' / '--fd', '39'
                    out_ = []
                    for a in argv:
                        a = re.sub(r'--wid=\d+', '--wid=N', a)
                        if out_ and out_[-1] == '--fd' and a.isdigit():
                            a = 'FD'
                        out_.append(a)
                    return out_
                sig = sorted(
                    (json.dumps(norm(p.argv)),
                     json.dumps(sorted((p.kw.get('env') or {}).items())),
                     p.kw.get('cwd')) for p in procs)
                out['watchers'][n] = {'options': opts,
                                      'status': sts['statuses'][n],
                                      'live': len(procs), 'procs': sig}
            return out
        finally:
            self.world = old

    def fresh_views(self):
        """a second universe: a fresh daemon started on the same file"""
        a = self.world
        cfg = dict(self.cfg)
        cfg['seed'] = self.cfg.get('seed', 0) + 1
        b = World(cfg)
        try:
            b.scratch = None
            b.build_from_ini(self.ini_path)
            b.start()
            b.settle(extra_checks=1)
            return self.views(b)
        finally:
            b.scratch = None
            b.close()
            a.install()

    # ------------------------------------------------------------- one edit
    def step(self, idx, new):
        w = self.world
        k = w.kernel
        old = self.version
        before = dict((m, sorted(p.pid for p in ps))
                      for m, ps in self.live().items())
        s0, g0 = len(k.spawns), len(k.signals)
        self.write(new)
        r = w.call('reloadconfig', {}, waiting=True)
        self.fired['req:reloadconfig'] += 1
        o = r.reply
        if not isinstance(o, dict) or o.get('status') != 'ok':
            self.viol('reloadconfig_failed', 'edit #%d (%s): reloadconfig '
                      'answered %r' % (idx, new.get('edit'), o), once=idx,
                      edit=new.get('edit'))
            self.version = new
            return
        ok = w.settle(extra_checks=1)
        if self.stopped() or not ok:
            return
        self.quiet_points += 1
        self.note('reload:' + str(new.get('edit')))
        after = dict((m, sorted(p.pid for p in ps))
                     for m, ps in self.live().items())
        mine = self.views(w)
        ref = self.fresh_views()
        edit = new.get('edit')
        self.probes['edit_' + str(edit)] += 1
        # 1. same as a fresh start on this file
        if mine['names'] != ref['names']:
            self.viol('watcher_set_differs_from_fresh_start',
                      'after edit #%d (%s): daemon runs %r, a fresh start on '
                      'the file runs %r' % (idx, edit, mine['names'],
                                            ref['names']), once=idx,
                      edit=edit)
        else:
            for n in ref['names']:
                a, b = mine['watchers'][n], ref['watchers'][n]
                if a['options'] != b['options']:
                    diffs = sorted(
                        key for key in set(a['options'] or {}) |
                        set(b['options'] or {})
                        if (a['options'] or {}).get(key) !=
                        (b['options'] or {}).get(key))
                    self.viol('options_differ_from_fresh_start',
                              'after edit #%d (%s): %s has %s, fresh start '
                              'gives %s' % (
                                  idx, edit, n,
                                  dict((d, (a['options'] or {}).get(d))
                                       for d in diffs),
                                  dict((d, (b['options'] or {}).get(d))
                                       for d in diffs)),
                              once=(idx, n), edit=edit,
                              option=diffs[0] if diffs else None)
                elif a['live'] != b['live']:
                    self.viol('processes_differ_from_fresh_start',
                              'after edit #%d (%s): %s is %s with %d workers, '
                              'fresh start: %s with %d' %
                              (idx, edit, n, a['status'], a['live'],
                               b['status'], b['live']), once=(idx, n),
                              edit=edit,
                              from_zero=any(x['name'] == n and x['np'] == 0
                                            for x in old['watchers']),
                              respawn_off=any(
                                  x['name'] == n and str(x.get('opts', {}).get(
                                      'respawn', 'True')) == 'False'
                                  for x in new['watchers']))
                elif a['procs'] != b['procs']:
                    self.viol('command_lines_differ_from_fresh_start',
                              'after edit #%d (%s): workers of %s run %s, '
                              'fresh start: %s' % (idx, edit, n,
                                                   a['procs'][:2],
                                                   b['procs'][:2]),
                              once=(idx, n), edit=edit)
        # 2. only what changed was disturbed
        oldw = dict((x['name'], x) for x in old['watchers'])
        neww = dict((x['name'], x) for x in new['watchers'])
        for n in set(oldw) & set(neww):
            m = marker_of(n)
            same = section_key(oldw[n], old) == section_key(neww[n], new)
            b4, af = before.get(m, []), after.get(m, [])
            if same and oldw[n]['np'] == neww[n]['np']:
                self.probes['unchanged_watchers_checked'] += 1
                if b4 != af:
                    self.viol('unchanged_watcher_disturbed',
                              'edit #%d (%s) does not touch %s, its workers '
                              'changed %s -> %s' % (idx, edit, n, b4, af),
                              once=(idx, n), edit=edit)
            elif same:
                self.probes['numprocesses_only_checked'] += 1
                keep = min(oldw[n]['np'], neww[n]['np'])
                kept = [p for p in b4 if p in af]
                if len(kept) < min(keep, len(b4)):
                    self.viol('numprocesses_change_restarted_workers',
                              'edit #%d changes only numprocesses of %s '
                              '%d -> %d: workers %s -> %s' %
                              (idx, n, oldw[n]['np'], neww[n]['np'], b4, af),
                              once=(idx, n), edit=edit)
        if edit in ('noop', 'move') and (len(k.spawns) != s0 or
                                         len(k.signals) != g0):
            self.viol('noop_reload_had_effects', 'reloading an unchanged '
                      'file: %d spawns, %d signals' %
                      (len(k.spawns) - s0, len(k.signals) - g0), once=idx)
        self.version = new

    def final(self):
        pass


class C12(Prop):
    id = 'C12'
    level = 'exploration'
    hashseed_sensitive = True
    rule = ('one case = a generated ini file (fixed [circus] section, 0-3 '
            'watcher sections, [env] / [env:NAME] sections) and 1-8 edits: '
            'add / remove a watcher, change numprocesses only, change cmd, '
            'env or another option, add an option that is absent from the '
            'defaults (max_age) and remove it again, revert to an earlier '
            'value, no-op rewrite; in a fifth of the cases part of the '
            'sections lives in an included file and sections move between '
            'the two files; a plugin section in 15 %; each followed by a waiting reloadconfig. '
            'after every reload, at quiescence, the daemon is compared with '
            'a fresh daemon started on the same file in a second simulator '
            'universe (watcher set, options replies, status, live workers, '
            'command lines, environments) and worker pids are compared with '
            'those before the reload. non-trivial = a history with at least '
            'two edits touching the same watcher; distinct = hash of the '
            'edit kind sequence and abstract states')
    chunk = 60
    budget = {'quick': 40, 'thorough': 900}

    def gen(self, rng, tier, seed):
        cfg = {'seed': seed, 'check_delay': rng.choice([0.3, 1.0]),
               'spawn_cost': 0.001, 'step_cost': 0.0, 'watchers': [],
               'default_mix': [{'p': 1, 'label': 'obedient'}]}
        names = rng.sample(NAMES, rng.randrange(0, 4))
        v = {'watchers': [{'name': n, 'np': rng.choice([0, 1, 1, 2, 2, 3]),
                           'opts': {'graceful_timeout': rng.choice(
                               [0, 0.05, 0.2])}} for n in names],
             'env': rng.choice([None, {'GLOBAL': 'g1'}]), 'edit': 'initial'}
        for w0 in v['watchers']:
            if rng.random() < 0.15:
                w0['env'] = rng.choice([{'LOGS': '$HOME/logs'},
                                        {'A': '1', 'B': '$PATH:/x'}])
            if rng.random() < 0.15:
                # defined but not to be started by the daemon
                w0['opts']['autostart'] = 'False'
            if rng.random() < 0.2:
                # the daemon's own environment underneath the sections
                w0['opts']['copy_env'] = 'True'
                if rng.random() < 0.5:
                    # ... and its module search path (a daemon that has no
                    # PYTHONPATH of its own computes one)
                    w0['opts']['copy_path'] = 'True'
            if rng.random() < 0.25:
                w0['opts']['stdout_stream.class'] = 'FileStream'
                w0['opts']['stdout_stream.filename'] = \
                    '@SCRATCH@/%s-out.log' % w0['name']
        if rng.random() < 0.15:
            v['plugin'] = {'attempts': 3}
            if rng.random() < 0.5:
                # (the plugins' command lines carry the daemon's log level)
                v['loglevel'] = rng.choice(['INFO', 'DEBUG'])
        if v['watchers'] and rng.random() < 0.12:
            # a managed socket that one watcher hands to its workers; edits
            # of the socket section re-create the socket and that watcher
            v['socket'] = {'backlog': 64}
            w0 = rng.choice(v['watchers'])
            w0['opts']['use_sockets'] = 'True'
            w0['cmd_extra'] = ' --fd $(circus.sockets.web)'
        with_inc = rng.random() < 0.2
        if with_inc:
            # part of the configuration lives in an included file
            v['inc'] = [w0['name'] for w0 in v['watchers']
                        if rng.random() < 0.6]
        versions = [v]
        n = rng.choice([1, 2, 3, 4, 6, 8]) if tier == 'quick' else \
            rng.choice([2, 4, 6, 8])
        history = [copy.deepcopy(v)]
        for _ in range(n):
            v = copy.deepcopy(versions[-1])
            ws = v['watchers']
            kinds = ['add', 'noop', 'noop', 'env_global']
            if ws:
                kinds += ['remove', 'np', 'np', 'np', 'cmd', 'option',
                          'new_option', 'new_option', 'env', 'revert',
                          'drop_option', 'stream']
            if with_inc and ws:
                kinds += ['move', 'move']
            if versions[0].get('plugin'):
                kinds += ['plugin']
            if v.get('socket'):
                kinds += ['socket', 'socket']
            kind = rng.choice(kinds)
            if kind == 'socket':
                v['socket'] = {'backlog': rng.choice(
                    [b for b in (16, 64, 128)
                     if b != v['socket']['backlog']])}
            if kind == 'move':
                # a section moves between the main and the included file:
                # the configuration is the same
                w = rng.choice(ws)
                inc = list(v.get('inc') or [])
                if w['name'] in inc:
                    inc.remove(w['name'])
                else:
                    inc.append(w['name'])
                v['inc'] = inc
            if kind == 'plugin':
                v['plugin'] = rng.choice([None, {'attempts': 3},
                                          {'attempts': 5}])
            if kind == 'add':
                free = [x for x in NAMES if x.lower() not in
                        [y['name'].lower() for y in ws]]
                if not free:
                    kind = 'noop'
                else:
                    ws.append({'name': rng.choice(free),
                               'np': rng.choice([1, 2]),
                               'opts': {'graceful_timeout': 0.05}})
                    if rng.random() < 0.25:
                        ws[-1]['opts']['autostart'] = 'False'
                    if with_inc and rng.random() < 0.5:
                        v['inc'] = list(v.get('inc') or []) + [ws[-1]['name']]
            if kind == 'remove':
                ws.pop(rng.randrange(len(ws)))
            elif kind == 'np':
                w = rng.choice(ws)
                w['np'] = rng.choice([x for x in (0, 1, 1, 2, 2, 3, 3, 4, 4)
                                      if x != w['np']])
            elif kind == 'cmd':
                w = rng.choice(ws)
                w['cmd_extra'] = rng.choice(['', ' --x', ' --y 2'])
            elif kind == 'option':
                w = rng.choice(ws)
                k = rng.choice(['graceful_timeout', 'max_retry', 'priority',
                                'stop_signal', 'respawn', 'copy_env'])
                w.setdefault('opts', {})[k] = {
                    'graceful_timeout': rng.choice([0, 0.1, 0.3]),
                    'max_retry': rng.choice([2, 5, 7]),
                    'priority': rng.choice([0, 1, 5]),
                    'stop_signal': rng.choice(['TERM', 'INT', 'QUIT']),
                    'respawn': rng.choice(['True', 'False']),
                    'copy_env': rng.choice(['True', 'False'])}[k]
                if k == 'copy_env' and 'copy_path' in w['opts']:
                    # (the two must agree, the daemon refuses anything else)
                    w['opts']['copy_path'] = w['opts']['copy_env']
            elif kind == 'new_option':
                w = rng.choice(ws)
                k = rng.choice(['max_age', 'max_age_variance',
                                'close_child_stdout'])
                w.setdefault('opts', {})[k] = {
                    'max_age': rng.choice([1000, 2000]),
                    'max_age_variance': rng.choice([5, 10]),
                    'close_child_stdout': rng.choice(['True', 'False'])}[k]
            elif kind == 'stream':
                w = rng.choice(ws)
                ch = rng.choice(['stdout_stream', 'stderr_stream'])
                o = w.setdefault('opts', {})
                if ch + '.class' in o and rng.random() < 0.4:
                    o.pop(ch + '.class')
                    o.pop(ch + '.filename', None)
                else:
                    o[ch + '.class'] = 'FileStream'
                    o[ch + '.filename'] = '@SCRATCH@/%s-%s-%d.log' % (
                        w['name'], ch, rng.randrange(2))
            elif kind == 'drop_option':
                w = rng.choice(ws)
                extra = [k for k in w.get('opts', {})
                         if k != 'graceful_timeout' and '_stream.' not in k]
                if extra:
                    k = rng.choice(extra)
                    w['opts'].pop(k)
                    if k in ('copy_env', 'copy_path'):
                        w['opts'].pop('copy_env', None)
                        w['opts'].pop('copy_path', None)
                else:
                    kind = 'noop'
            elif kind == 'env':
                w = rng.choice(ws)
                w['env'] = rng.choice([None, {'A': '1'}, {'A': '2'},
                                       {'A': '1', 'B': 'x y'},
                                       # names the daemon's own environment
                                       # has as well
                                       # values that refer to the daemon's
                                       # environment (expanded when read)
                                       {'LOGS': '$HOME/logs'},
                                       {'LOGS': '$HOME/logs', 'A': '$PATH'},
                                       # set, to the empty string
                                       {'A': '1', 'DEBUG': ''},
                                       {'DEBUG': ''},
                                       {'PATH': '/opt/one:/usr/bin'},
                                       {'PATH': '/opt/two:/usr/bin'},
                                       {'HOME': '/h1', 'A': '1'}])
            elif kind == 'env_global':
                v['env'] = rng.choice([None, {'GLOBAL': 'g1'},
                                       {'GLOBAL': 'g2'}])
            elif kind == 'revert':
                v = copy.deepcopy(rng.choice(history))
            if json.dumps(v.get('watchers'), sort_keys=True) == \
                    json.dumps(versions[-1].get('watchers'), sort_keys=True) \
                    and v.get('env') == versions[-1].get('env') \
                    and v.get('plugin') == versions[-1].get('plugin') \
                    and v.get('socket') == versions[-1].get('socket'):
                kind = 'move' if kind == 'move' else 'noop'
            v['edit'] = kind
            versions.append(v)
            history.append(copy.deepcopy(v))
        return {'cfg': cfg, 'ops': [], 'versions': versions}

    def run(self, case):
        ep = C12Episode(case)
        ep.run()
        kinds = [v.get('edit') for v in case['versions'][1:]]
        nt = len(kinds) >= 2
        res = self.result(ep, nontrivial=nt)
        return res

    def simplify(self, case):
        vs = case['versions']
        # drop one edit at a time (keep the initial version)
        for i in range(1, len(vs)):
            c = dict(case)
            c['versions'] = vs[:i] + vs[i + 1:]
            if len(c['versions']) >= 2:
                yield c


PROP = C12()
