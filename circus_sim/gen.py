"""Shared generators: swarm configuration, behaviour mixes, placements."""
import signal

GRACE = [0, 0.05, 0.25, 1.0, 3.0]
WARMUP = [0, 0, 0.05, 0.3, 1.7]
CHECK_DELAY = [0.3, 1.0, 1.0, 5.0]
TERM_SIGNALS = [int(s) for s in (signal.SIGHUP, signal.SIGINT, signal.SIGQUIT,
                                 signal.SIGILL, signal.SIGABRT, signal.SIGFPE,
                                 signal.SIGKILL, signal.SIGSEGV, signal.SIGPIPE,
                                 signal.SIGALRM, signal.SIGTERM, signal.SIGUSR1,
                                 signal.SIGUSR2, signal.SIGBUS, signal.SIGXCPU,
                                 signal.SIGSYS, signal.SIGVTALRM)]
STOP_SIGNALS = [int(signal.SIGTERM), int(signal.SIGTERM), int(signal.SIGINT),
                int(signal.SIGQUIT), int(signal.SIGUSR1), int(signal.SIGHUP)]


def delays_around(g, rng):
    """reaction delays on both sides of (and exactly at) the grace period"""
    c = [0.0, 0.0, 0.01]
    if g > 0:
        c += [g * 0.5, max(0.0, g - 0.1), max(0.0, g - 0.1 - 1e-3),
              max(0.0, g - 0.1 + 1e-3), max(0.0, g - 1e-3), g, g + 1e-3,
              g + 0.05, g + 0.1, g + 0.3]
    else:
        c += [0.05, 0.1, 0.3]
    return c


def gen_mix(rng, grace, kinds=('obedient', 'slow', 'stubborn', 'selfexit'),
            latency=(0.0, 0.0, 0.001, 0.005), stop_signal=15, kids=False):
    """behaviour mix of one watcher"""
    mix = []
    lat = [rng.choice(latency)]
    if 'obedient' in kinds:
        mix.append({'p': 4, 'label': 'obedient', 'delay': [0.0, 0.0, 0.01],
                    'exit': rng.choice([None, None, [0], [0, 1, 3]]),
                    'latency': lat})
    if 'slow' in kinds:
        mix.append({'p': 2, 'label': 'slow', 'latency': lat,
                    'delay': [rng.choice(delays_around(grace, rng))
                              for _ in range(3)],
                    'exit': rng.choice([None, [0], [0, 2]])})
    if 'stubborn' in kinds and rng.random() < 0.6:
        mix.append({'p': rng.choice([1, 2]), 'label': 'stubborn',
                    'ignore': 'all', 'latency': lat})
    if 'selective' in kinds and rng.random() < 0.4:
        mix.append({'p': 1, 'label': 'selective', 'ignore': [stop_signal],
                    'latency': lat})
    if 'selfexit' in kinds and rng.random() < 0.5:
        mix.append({'p': rng.choice([1, 2]), 'label': 'selfexit',
                    'latency': lat,
                    'life': [rng.choice([0.0, 0.003, 0.05, 0.4, 1.3, 4.0])
                             for _ in range(3)],
                    'life_status': [rng.choice(
                        [['exit', rng.randrange(256)],
                         ['exit', rng.choice([0, 1, 2, 127, 255])],
                         ['sig', rng.choice(TERM_SIGNALS)]])
                        for _ in range(3)],
                    'delay': [0.0, 0.05]})
    if kids:
        for m in mix:
            if rng.random() < 0.6:
                m['kids'] = [rng.choice([1, 2, 3])]
                m['kid'] = {'label': 'kid',
                            'ignore': rng.choice([[], [], 'all', [stop_signal]]),
                            'delay': [rng.choice([0.0, 0.02, 0.3])],
                            'kids': [rng.choice([0, 0, 1])],
                            'kid': {'label': 'grandkid',
                                    'ignore': rng.choice([[], 'all'])}}
    if not mix:
        mix.append({'p': 1, 'label': 'obedient'})
    return mix


def gen_watcher(rng, i, names=None, numproc=(0, 1, 1, 2, 2, 3, 4),
                kinds=('obedient', 'slow', 'stubborn', 'selfexit'),
                singleton_p=0.15, max_age_p=0.0, grace=GRACE, warmup=WARMUP,
                respawn=True, kids=False, stop_children_p=0.0,
                stop_signals=(15,), priority=False, autostart_p=1.0):
    name = (names[i] if names else 'w%d' % i)
    g = rng.choice(grace)
    opts = {'numprocesses': rng.choice(numproc),
            'graceful_timeout': g,
            'warmup_delay': rng.choice(warmup)}
    if rng.random() < singleton_p:
        opts['singleton'] = True
        opts['numprocesses'] = rng.choice([0, 1, 1])
    ss = rng.choice(list(stop_signals))
    if ss != 15:
        opts['stop_signal'] = ss
    if rng.random() < stop_children_p:
        opts['stop_children'] = True
    if respawn is not True:
        opts['respawn'] = respawn
    if rng.random() < max_age_p:
        opts['max_age'] = rng.choice([1, 2, 5])
        opts['max_age_variance'] = rng.choice([0, 1, 3])
    if priority:
        opts['priority'] = rng.choice([-2, 0, 0, 1, 1, 5])
    if rng.random() > autostart_p:
        opts['autostart'] = False
    return {'name': name, 'marker': 'm%d' % i, 'opts': opts,
            'mix': gen_mix(rng, g, kinds=kinds, stop_signal=ss, kids=kids)}


def gen_base_cfg(rng, seed, nwatch=(1, 1, 2, 2, 3), **wkw):
    n = rng.choice(nwatch)
    cfg = {'seed': seed,
           'check_delay': rng.choice(CHECK_DELAY),
           'warmup_delay': rng.choice([0, 0, 0, 0.05, 0.5]),
           'step_cost': rng.choice([0.0, 0.0, 0.0, 1e-5, 1e-3]),
           'spawn_cost': rng.choice([0.0002, 0.001, 0.005]),
           'watchers': [gen_watcher(rng, i, **wkw) for i in range(n)]}
    return cfg


def gen_place(rng, inflight=True):
    """placement of an environment event; biased to land inside whatever the
    previous operation started"""
    x = rng.random()
    if inflight:
        if x < 0.35:
            return {'calls': rng.choice([1, 1, 2, 3, 4, 5, 6, 8, 10, 13, 17,
                                         22, 30, 40])}
        if x < 0.65:
            return {'steps': rng.choice([1, 2, 3, 4, 5, 7, 9, 12, 16, 25, 40,
                                         60])}
        if x < 0.85:
            return {'dt': rng.choice([0.0, 0.001, 0.01, 0.05, 0.099, 0.1,
                                      0.101, 0.2, 0.3, 0.5, 1.0, 2.0])}
        return 'now'
    if x < 0.5:
        return {'dt': rng.choice([0.0, 0.01, 0.1, 0.35, 0.9, 1.0, 1.1, 2.5,
                                  4.9, 5.0])}
    if x < 0.7:
        return {'steps': rng.randrange(1, 30)}
    if x < 0.85:
        return {'calls': rng.randrange(1, 30)}
    return 'now'


def gen_death(rng, nwatch, place=None, inflight=True):
    how = rng.choice(['exit', 'exit', 'kill', 'kill', 'sig'])
    if rng.random() < 0.03:
        # no death: the main thread exits, the other threads go on (the
        # process looks like a zombie and is none)
        how = 'leader'
    op = {'op': 'die', 'w': rng.randrange(nwatch), 'j': rng.randrange(5),
          'how': how,
          'place': place if place is not None else gen_place(rng, inflight)}
    if how == 'exit':
        op['arg'] = rng.choice([0, 1, 3, rng.randrange(256), 255])
    elif how == 'sig':
        op['arg'] = rng.choice(TERM_SIGNALS)
        if rng.random() < 0.1:
            # real-time signals (default action: terminate); only the first
            # and the last have a name
            op['arg'] = rng.choice([34, 35, 50, 64])
    return op


READ_ONLY_CMDS = ['status', 'list', 'numprocesses', 'numwatchers', 'options',
                  'get', 'globaloptions', 'listsockets', 'stats', 'dstats']


def gen_request(rng, nwatch, kind, waiting=None, place='now', sync=None):
    """one client request of the given command kind on a random watcher"""
    w = rng.randrange(nwatch)
    if waiting is None:
        waiting = rng.random() < 0.7
    op = {'op': 'req', 'cmd': kind, 'w': w, 'props': {}, 'waiting': waiting,
          'place': place}
    p = op['props']
    if rng.random() < 0.15:
        op['case'] = rng.choice(['upper', 'swap'])
    if kind in ('incr', 'decr'):
        if rng.random() < 0.7:
            p['nb'] = rng.choice([1, 1, 2, 3])
    elif kind == 'set':
        p['options'] = {'numprocesses': rng.choice([-2, 0, 1, 1, 2, 3, 4, 5])}
    elif kind == 'reload':
        mode = rng.choice(['graceful', 'graceful', 'sequential', 'terminate'])
        if mode == 'sequential':
            p['sequential'] = True
        elif mode == 'terminate':
            p['graceful'] = False
        if rng.random() < 0.15:
            op['w'] = None          # reload everything
    elif kind in ('start', 'stop', 'restart'):
        if rng.random() < 0.12 and kind != 'restart':
            op['w'] = None          # all watchers (restart without a name
            #                         restarts the daemon: daemon-main family)
        elif rng.random() < 0.1:
            p['match'] = 'simple'
    elif kind == 'kill':
        if rng.random() < 0.6:
            p['pid'] = {'w': w, 'j': rng.randrange(4)}
        if rng.random() < 0.3:
            p['signum'] = rng.choice(STOP_SIGNALS)
        if rng.random() < 0.3:
            p['graceful_timeout'] = rng.choice([0, 0.05, 0.2, 0.5, 1.0])
    elif kind == 'signal':
        p['signum'] = rng.choice([1, 2, 10, 12, 15, 15, 9, 'term', 'SIGUSR1'])
        if rng.random() < 0.6:
            p['pid'] = {'w': w, 'j': rng.randrange(4)}
    elif kind == 'get':
        p['keys'] = ['numprocesses', 'graceful_timeout']
    elif kind in ('numwatchers', 'globaloptions', 'listsockets', 'dstats'):
        op['w'] = None
        op['waiting'] = False
    elif kind in ('status', 'list', 'numprocesses', 'stats'):
        if rng.random() < 0.3:
            op['w'] = None
        op['waiting'] = False
    if kind in READ_ONLY_CMDS:
        op['waiting'] = False
    if sync is not None:
        op['sync'] = sync
    return op


def gen_history(rng, cfg, n_ops, req_kinds, weights=None, fault_p=0.55,
                death_p=0.35, quiet_p=0.5, dsig=False, second_req_kinds=None):
    """operation list: requests, deaths and waits; faults are biased to land
    inside the request that was just sent."""
    nwatch = len(cfg['watchers'])
    ops = []
    kinds = list(req_kinds)
    for _ in range(n_ops):
        x = rng.random()
        if x < death_p:
            ops.append(gen_death(rng, nwatch, inflight=False))
            if rng.random() < 0.5:
                ops.append({'op': 'wait', 'kind': 'time',
                            'n': rng.choice([0.01, 0.2, 0.5, 1.0, 1.2, 3.0])})
        else:
            kind = rng.choices(kinds, weights)[0] if weights else \
                rng.choice(kinds)
            r = gen_request(rng, nwatch, kind)
            ops.append(r)
            if rng.random() < fault_p:
                for _k in range(rng.choice([1, 1, 2, 3])):
                    y = rng.random()
                    if y < 0.65:
                        d = gen_death(rng, nwatch, inflight=True)
                        if rng.random() < 0.7 and r['w'] is not None:
                            d['w'] = r['w']
                        ops.append(d)
                    elif y < 0.9 and second_req_kinds:
                        r2 = gen_request(rng, nwatch,
                                         rng.choice(second_req_kinds),
                                         place=gen_place(rng, True))
                        if rng.random() < 0.6 and r['w'] is not None \
                                and r2['w'] is not None:
                            r2['w'] = r['w']
                        ops.append(r2)
                    elif dsig:
                        ops.append({'op': 'dsig', 'sig': rng.choice([1, 15, 2]),
                                    'place': gen_place(rng, True)})
            z = rng.random()
            if z < quiet_p:
                ops.append({'op': 'quiet',
                            'checks': rng.choice([0, 0, 1, 2])})
            elif z < quiet_p + 0.3:
                ops.append({'op': 'wait', 'kind': 'replies'})
            else:
                ops.append({'op': 'wait', 'kind': rng.choice(['time', 'steps']),
                            'n': rng.choice([1, 2, 5])})
    return ops


def gen_hook_script(rng, n=6, bad_p=0.35):
    """outcome script of one hook: mostly 'true', sometimes false / raise at
    some call"""
    s = ['true'] * n
    if rng.random() < bad_p:
        for _ in range(rng.choice([1, 1, 2])):
            s[rng.randrange(n)] = rng.choice(['false', 'raise'])
    return s


def gen_hooks(rng, names=('before_start', 'before_spawn', 'after_spawn',
                          'after_start'), p=0.5, bad_p=0.35):
    hooks = {}
    for h in names:
        if rng.random() < p:
            hooks[h] = {'script': gen_hook_script(rng, bad_p=bad_p),
                        'ignore': rng.random() < 0.3}
    return hooks


def add_on_demand(rng, cfg, ops, race=True):
    """turn one watcher into an on-demand watcher (started by a socket event
    from the periodic check, outside the command lock) and sprinkle socket
    events over the history"""
    cfg['sockets'] = [{'name': 'ondemand'}]
    wc = rng.choice(cfg['watchers'])
    wc['opts'].update({'on_demand': True, 'use_sockets': True,
                       'numprocesses': rng.choice([1, 2, 3]),
                       'warmup_delay': rng.choice([0, 0.3, 1.7])})
    wc['opts'].pop('singleton', None)
    wi = cfg['watchers'].index(wc)
    n = rng.choice([1, 2, 3])
    for _ in range(n):
        pos = rng.randrange(len(ops) + 1)
        ops.insert(pos, {'op': 'connect', 's': 0,
                         'place': gen_place(rng, rng.random() < 0.5)})
        if rng.random() < 0.5:
            ops.insert(pos + 1, {'op': 'wait', 'kind': 'time',
                                 'n': rng.choice([0.2, 1.1, 2.0])})
            if race and rng.random() < 0.6:
                # a request for the on-demand watcher that may land inside
                # the warm-up sleeps of its start (which runs outside the
                # command lock)
                cmd = rng.choice(['set', 'set', 'decr', 'incr', 'stop',
                                  'reload'])
                props = {}
                if cmd == 'set':
                    props = {'options': {'numprocesses':
                                         rng.choice([0, 0, 1, 5])}}
                elif cmd in ('incr', 'decr'):
                    props = {'nb': rng.choice([1, 2, 3])}
                ops.insert(pos + 2, {
                    'op': 'req', 'cmd': cmd, 'w': wi, 'props': props,
                    'waiting': rng.random() < 0.7,
                    'place': rng.choice(['now', {'dt': rng.choice(
                        [0.05, 0.2, 0.4, 1.0])}])})
    if race and rng.random() < 0.35:
        # two overlapping starts: the only worker of the first start dies
        # while that start sleeps in its warm-up (the watcher falls back to
        # 'stopped'), the next socket event starts it again, and a stop /
        # set / decr lands while both starts are asleep
        wc['opts']['warmup_delay'] = rng.choice([1.7, 1.7, 3.1])
        wc['opts']['numprocesses'] = rng.choice([2, 3])
        tail = [{'op': 'connect', 's': 0, 'place': 'now'},
                {'op': 'wait', 'kind': 'time',
                 'n': rng.choice([1.1, 1.3, 2.0])},
                {'op': 'die', 'w': wi, 'j': 0, 'how': 'kill', 'place': 'now'},
                {'op': 'connect', 's': 0, 'place': 'now'},
                {'op': 'wait', 'kind': 'time',
                 'n': rng.choice([1.0, 1.1, 2.0, 2.2])},
                {'op': 'req', 'cmd': rng.choice(['stop', 'stop', 'decr',
                                                 'set']),
                 'w': rng.choice([wi, wi, None]), 'props': {},
                 'waiting': True,
                 'place': rng.choice(['now', {'dt': 0.01}, {'dt': 0.4}])},
                {'op': 'wait', 'kind': 'time', 'n': rng.choice([2, 5])}]
        r = tail[5]
        if r['cmd'] == 'set':
            r['w'] = wi
            r['props'] = {'options': {'numprocesses': rng.choice([0, 1])}}
        elif r['cmd'] == 'decr':
            r['w'] = wi
            r['props'] = {'nb': rng.choice([1, 2])}
        pos = rng.randrange(len(ops) + 1)
        ops[pos:pos] = tail
    return wi
