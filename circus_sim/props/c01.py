"""C01 - process count converges to numprocesses and then stays put."""
import math

from .base import Prop
from ..lifecycle import Episode
from .. import gen


class C01Episode(Episode):
    def setup(self):
        super().setup()
        w = self.world
        self.fresh_checks = 0
        w.reply_hooks.append(self.on_reply)
        # reference target: the configured numprocesses as the accepted
        # incr / decr / set requests leave it (accepted operations are
        # serialized: applied in the order they were dispatched)
        self.accepted = []
        self.target_seen = set()
        w.reply_hooks.append(self.track_target)

    def track_target(self, r, ent):
        if r.cmd not in ('incr', 'decr', 'set') or r.idx in self.target_seen \
                or r.wname is None:
            return
        self.target_seen.add(r.idx)
        o = ent[5]
        if isinstance(o, dict) and o.get('status') == 'ok':
            self.accepted.append((r.disp_seq, r.cmd, r.wname.lower(),
                                  r.props or {}))

    def targets(self):
        t = dict((wc['name'].lower(), [wc['opts'].get('numprocesses', 1),
                                       bool(wc['opts'].get('singleton'))])
                 for wc in self.cfg['watchers'])
        for (seq, cmd, wname, props) in sorted(self.accepted,
                                               key=lambda a: a[0]):
            if wname not in t:
                continue
            cur = t[wname]
            if cmd == 'set':
                n = (props.get('options') or {}).get('numprocesses')
                if isinstance(n, int) and not isinstance(n, bool):
                    cur[0] = max(0, n)
            else:
                nb = props.get('nb', 1)
                if cur[1] or not isinstance(nb, int) or isinstance(nb, bool):
                    continue       # a singleton is left alone
                cur[0] = max(0, cur[0] + (nb if cmd == 'incr' else -nb))
        return t

    def on_reply(self, r, ent):
        """freshness: after a completed restart / reload every live worker of
        the watcher was started after the request"""
        if r.cmd not in ('restart', 'reload') or not r.waiting:
            return
        o = ent[5]
        if not isinstance(o, dict) or o.get('status') != 'ok':
            return
        if r.wname is None:
            return
        wt = self.watcher_obj(r.wname)
        if wt is None:
            return
        wc = None
        for c in self.cfg['watchers']:
            if c['name'].lower() == r.wname.lower():
                wc = c
        if wc is None or wc['opts'].get('send_hup'):
            return
        k = self.world.kernel
        marker = wc.get('marker', wc['name'])
        # a worker whose termination by the daemon is already under way (kill
        # event published: stop signal sent, SIGKILL follows after the grace
        # period; or SIGKILL sent and only the simulated death latency keeps
        # it in the table) is not one of "them"
        doomed = set(e['pid'] for e in k.signals
                     if e['sig'] == 9 and e['effect'] in ('will-die', 'died'))
        for (seq, t, topic, obj) in self.world.ctx.events:
            if topic.endswith('.kill') and isinstance(obj, dict):
                doomed.add(obj.get('process_pid'))
        old = [p.pid for p in k.live_by_marker(marker)
               if p.spawn_seq < r.disp_seq and p.pid not in doomed]
        self.fresh_checks += 1
        self.probes['freshness_checked'] += 1
        if old:
            me = k.getpid_value
            newdead = [p.pid for p in k.procs.values()
                       if p.orig_parent == me and p.marker == marker and
                       p.spawn_seq > r.disp_seq and not p.alive]
            self.viol('stale_worker_after_%s' % r.cmd,
                      '%s of %s completed (reply ok) but workers %s were '
                      'started before the request' % (r.cmd, r.wname, old),
                      once=r.idx, cmd=r.cmd, new_worker_died=bool(newdead),
                      mode='sequential' if (r.props or {}).get('sequential')
                      else 'terminate' if (r.props or {}).get('graceful')
                      is False else 'default')

    def collect(self):
        try:
            if self.aborted == 'daemon_hung' and self.world is not None:
                # the loop is dead (a blocking wait for a process that is
                # alive): no periodic check will ever run again
                h = self.world.sim.hung or {}
                self.aborted = None
                self.viol('daemon_stopped_converging',
                          'the event loop is dead (%s waits for live pid %s): '
                          'nothing converges any more'
                          % (' <- '.join((h.get('stack') or [])[:3]),
                             h.get('pid')), once='hung')
        finally:
            super().collect()

    def final(self):
        w = self.world
        k = w.kernel
        converged = True
        views = {}
        for wc in self.cfg['watchers']:
            name = wc['name']
            st = self.ask('status', {'name': name})
            if not isinstance(st, dict) or st.get('status') != 'active':
                continue
            if wc['opts'].get('respawn', True) is False:
                continue
            # the views are asked one after the other: a max_age expiry
            # ("something changes") may fall between them - ask again then
            for attempt in range(6):
                mark = (len(k.signals), len(k.spawns))
                g = self.ask('get', {'name': name, 'keys': ['numprocesses',
                                                            'singleton']})
                ls = self.ask('list', {'name': name})
                np_reply = self.ask('numprocesses', {'name': name})
                if mark == (len(k.signals), len(k.spawns)) and \
                        w.arbiter._exclusive_running_command is None:
                    break
                if not wc['opts'].get('max_age'):
                    break
                self.probes['views_interrupted_by_max_age'] += 1
                w.settle(extra_checks=0)
            else:
                self.probes['max_age_watcher_never_quiet'] += 1
                continue
            try:
                n = g['options']['numprocesses']
                singleton = g['options'].get('singleton')
                pids = sorted(ls['pids'])
            except (TypeError, KeyError):
                self.viol('bad_view_reply', 'get/list reply malformed for %s: '
                          '%r %r' % (name, g, ls))
                continue
            live = sorted(p.pid for p in k.live_by_marker(
                wc.get('marker', name)))
            views[name] = (n, pids)
            self.probes['converged_watchers_checked'] += 1
            t = self.targets().get(name.lower())
            if t is not None:
                self.probes['target_checked_against_accepted_requests'] += 1
                if t[0] != n:
                    self.viol('target_differs_from_accepted_requests',
                              '%s: configured numprocesses is %r, the '
                              'accepted incr / decr / set requests give %d'
                              % (name, n, t[0]), once=('t', name),
                              where='final')
            if n < 0:
                self.viol('negative_numprocesses', '%s reports numprocesses '
                          '%r' % (name, n))
            if singleton and n > 1:
                self.viol('singleton_above_one', '%s is a singleton with '
                          'numprocesses %r' % (name, n))
            if len(live) != n:
                converged = False
                self.viol('count_not_converged',
                          '%s: numprocesses=%d but %d live workers %s after '
                          'quiescence and %d periodic checks'
                          % (name, n, len(live), live,
                             self.cfg.get('final_checks', 3)),
                          direction='under' if len(live) < n else 'over')
            elif pids != live:
                converged = False
                self.viol('list_differs_from_live',
                          '%s: list reply %s, live workers %s' %
                          (name, pids, live))
            elif isinstance(np_reply, dict) and \
                    np_reply.get('numprocesses') != n:
                self.viol('numprocesses_reply_differs',
                          '%s: numprocesses reply %r, configured %d' %
                          (name, np_reply.get('numprocesses'), n))
        if not converged or not views:
            return
        if any(wc['opts'].get('max_age') for wc in self.cfg['watchers']):
            return
        # fixpoint: five more periodic checks, nothing may be started/signalled
        s0, g0 = len(k.spawns), len(k.signals)
        ok = w.settle(extra_checks=5)
        if self.stopped() or not ok:
            return
        self.probes['fixpoint_checked'] += 1
        if len(k.spawns) != s0:
            self.viol('fixpoint_spawn', 'converged state is not a fixpoint: %d '
                      'spawn(s) during 5 idle checks' % (len(k.spawns) - s0))
        if len(k.signals) != g0:
            e = k.signals[g0]
            self.viol('fixpoint_signal', 'converged state is not a fixpoint: '
                      'signal %s sent to %s during idle checks by %s'
                      % (e['sig'], e['pid'], e['sender'][:4]))
        for name, (n, pids) in views.items():
            ls = self.ask('list', {'name': name})
            if isinstance(ls, dict) and sorted(ls.get('pids', [])) != pids:
                self.viol('fixpoint_list_changed', '%s: list changed from %s '
                          'to %s during idle checks' % (name, pids,
                                                        ls.get('pids')))


class C01(Prop):
    id = 'C01'
    level = 'exploration'
    rule = ('one case = one seeded daemon life: 1-3 respawning watchers '
            '(numprocesses 0-4, singleton, warmup, graceful_timeout, '
            'max_age in some) + operation list of worker exits (any status), '
            'external SIGKILL/SIGTERM, incr/decr/set numprocesses (n from -2 '
            'to 5), restart, reload (graceful/sequential/terminate), kill and '
            'waits, placed at kernel-call boundaries / loop steps / virtual '
            'times; after the faults stop the daemon must converge within '
            'ceil(np*warmup/check_delay)+3 checks and then be a fixpoint for 5 '
            'more; the configured numprocesses must be what the accepted '
            'incr / decr / set requests, applied in dispatch order, give. '
            'non-trivial = a fault fired while an operation was in '
            'flight; distinct = distinct (event kind, abstract daemon state) '
            'sequence hash')
    chunk = 120
    REQS = ['incr', 'decr', 'set', 'restart', 'reload', 'kill', 'list',
            'numprocesses']
    WEIGHTS = [4, 4, 4, 3, 4, 1, 1, 1]

    def gen(self, rng, tier, seed):
        cfg = gen.gen_base_cfg(rng, seed, max_age_p=0.15,
                               stop_children_p=0.1,
                               # workers with children and grandchildren of
                               # their own in a sixth of the cases
                               kids=rng.random() < 0.17,
                               stop_signals=(15, 15, 15, 15, 2, 1, 3),
                               kinds=('obedient', 'slow', 'stubborn',
                                      'selfexit'))
        for wc in cfg['watchers']:
            if rng.random() < 0.1:
                # reload only sends SIGHUP (no freshness claim then, the
                # count must converge all the same)
                wc['opts']['send_hup'] = True
        n = rng.choice([2, 3, 4, 6, 8, 12]) if tier == 'quick' else \
            rng.choice([3, 5, 8, 12, 20, 30])
        ops = gen.gen_history(rng, cfg, n, self.REQS, self.WEIGHTS)
        for op in ops:
            if op['op'] == 'req' and op['cmd'] == 'set' and \
                    rng.random() < 0.06:
                # a value nobody can use: refused or harmless, the watchers
                # go on being looked after
                op['props']['options'] = {'max_age_variance': -1}
            if op['op'] == 'req' and op['cmd'] in ('incr', 'decr') and \
                    rng.random() < 0.15:
                # any integer is accepted: negative and zero amounts
                op['props']['nb'] = rng.choice([-5, -2, -1, 0, 7])
        b = 3
        for wc in cfg['watchers']:
            # numprocesses can be raised to 5 (+3 by incr) during the history
            b = max(b, int(math.ceil(9 * wc['opts']['warmup_delay'] /
                                     cfg['check_delay'])) + 3)
        cfg['final_checks'] = b
        return {'cfg': cfg, 'ops': ops}

    def run(self, case):
        ep = C01Episode(case)
        ep.run()
        return self.result(ep)


PROP = C01()
