"""C04 - process accounting is exact: no leaked, untracked or phantom worker."""
import copy
import random

from .base import Prop
from ..lifecycle import Episode
from .. import gen


class C04Episode(Episode):
    def setup(self):
        super().setup()
        w = self.world
        self.death_marks = {}
        k = w.kernel

        def on_death(p):
            self.death_marks[p.pid] = w.checks_started
        k.on_death = on_death
        self.on_quiet.append(C04Episode.check_quiet)
        self.name2marker = dict((wc['name'].lower(),
                                 wc.get('marker', wc['name']))
                                for wc in self.cfg['watchers'])
        self.nostop = set()
        w.reply_hooks.append(self.on_reply)

    def on_reply(self, r, ent):
        if r.cmd == 'rm' and (r.props or {}).get('nostop') and \
                isinstance(ent[5], dict) and ent[5].get('status') == 'ok':
            m = self.name2marker.get((r.wname or '').lower())
            if m:
                self.nostop.add(m)

    def check_quiet(self):
        # the views are collected with several requests; with a step cost
        # virtual time passes meanwhile and a periodic check (or a death) may
        # fall in between: then the views are not one quiescent point
        w = self.world
        k = w.kernel
        for attempt in range(4):
            mark = (w.checks_started, w.checks_done, len(k.spawns),
                    len(k.signals), len(self.death_marks))
            n0 = len(self.violations)
            seen0 = set(self._seen)
            self.check_views()
            if mark == (w.checks_started, w.checks_done, len(k.spawns),
                        len(k.signals), len(self.death_marks)):
                return
            # interrupted: forget what was concluded, settle, try again
            del self.violations[n0:]
            self._seen = seen0
            self.probes['views_interrupted'] += 1
            if not w.settle(extra_checks=0) or self.stopped():
                return

    def check_views(self):
        w = self.world
        k = w.kernel
        me = k.getpid_value
        sts = self.ask('status', {})
        if not isinstance(sts, dict) or 'statuses' not in sts:
            self.viol('bad_view_reply', 'status reply malformed: %r' % (sts,))
            return
        listed = {}          # pid -> watcher names listing it
        views = {}
        for name, st in sorted(sts['statuses'].items()):
            ls = self.ask('list', {'name': name})
            npr = self.ask('numprocesses', {'name': name})
            stats = self.ask('stats', {'name': name})
            pids = ls.get('pids') if isinstance(ls, dict) else None
            if pids is None:
                self.viol('bad_view_reply', 'list reply malformed for %s: %r'
                          % (name, ls))
                continue
            views[name] = (st, pids)
            for pid in pids:
                listed.setdefault(pid, []).append(name)
            n = npr.get('numprocesses') if isinstance(npr, dict) else None
            info = stats.get('info') if isinstance(stats, dict) else None
            spids = sorted(int(x) for x in info) if isinstance(info, dict) \
                else None
            # a dead pid may stay tracked until a periodic check has run
            fresh_dead = [p for p in (spids or [])
                          if p in k.procs and not k.procs[p].alive and
                          w.checks_done < self.death_marks.get(p, 0) + 1]
            if st in ('starting', 'stopping'):
                self.viol('transient_status_at_quiescence',
                          'watcher %s reports %r although no operation is in '
                          'flight' % (name, st), once=('t', name), status=st)
            if n is not None and n != len(pids) and not fresh_dead:
                self.viol('numprocesses_differs_from_list',
                          '%s: numprocesses reply %r, list reply %r, stats %r'
                          % (name, n, pids, spids), once=('n', name))
            if spids is not None and sorted(pids) != spids and not fresh_dead:
                self.viol('stats_differs_from_list',
                          '%s: stats lists %r, list reply %r' %
                          (name, spids, pids), once=('s', name))
            if st == 'stopped' and pids:
                self.viol('stopped_with_processes',
                          '%s reports stopped but lists %r' % (name, pids),
                          once=('sp', name))
        for p in k.procs.values():
            if p.orig_parent != me:
                continue
            names = listed.get(p.pid, [])
            owner = None
            for nm, m in self.name2marker.items():
                if m == p.marker:
                    owner = nm
            settled = w.checks_done >= self.death_marks.get(p.pid, 0) + 1
            if p.alive:
                if p.marker in self.nostop:
                    continue
                if len(names) != 1:
                    removed_by = self.removal_site(p.pid)
                    self.viol('live_child_not_listed_once',
                              'child %d (watcher %s, behaviour %s) is alive '
                              'but listed by %r' % (p.pid, owner,
                                                    p.beh.label, names),
                              once=('l', p.pid), removed_by=removed_by,
                              listed=len(names))
                elif names[0].lower() != owner:
                    self.viol('child_listed_under_wrong_watcher',
                              'child %d spawned for %s is listed by %s' %
                              (p.pid, owner, names[0]), once=('w', p.pid))
                st = views.get(names[0], (None,))[0] if names else None
                if st == 'stopped':
                    self.viol('stopped_with_processes',
                              '%s reports stopped, child %d alive' %
                              (names[0], p.pid), once=('sp', names[0]))
            else:
                if names and settled:
                    self.viol('dead_pid_listed',
                              'pid %d is dead (%s) since more than one '
                              'periodic check but still listed by %r' %
                              (p.pid, p.state, names), once=('d', p.pid))
                if p.state == 'zombie' and settled:
                    self.viol('zombie_outlives_check',
                              'child %d is still a zombie after a periodic '
                              'check ran (died of %s)' % (p.pid,
                                                           p.death_cause),
                              once=('z', p.pid),
                              removed_by=self.removal_site(p.pid))
        for pid, names in listed.items():
            p = k.procs.get(pid)
            if p is None or p.orig_parent != me:
                self.viol('phantom_pid_listed', 'pid %r listed by %r is not a '
                          'child of the daemon' % (pid, names), once=('p', pid))
        # stopped watchers have no live children
        for name, (st, pids) in views.items():
            m = self.name2marker.get(name.lower())
            if st == 'stopped' and m is not None and m not in self.nostop:
                live = [p.pid for p in k.live_by_marker(m)]
                if live:
                    self.viol('stopped_with_live_children',
                              '%s reports stopped, its children %s are alive '
                              '(%s)' % (name, live,
                                        [k.procs[x].beh.label for x in live]),
                              once=('slc', name),
                              removed_by=self.removal_site(live[0]))

    def removal_site(self, pid):
        for wt in self.world.arbiter.watchers:
            for (p, who) in getattr(wt.processes, 'removed', []):
                if p == pid:
                    return who
        return None


class C04(Prop):
    id = 'C04'
    level = 'fault_enumeration'
    rule = ('one case = one seeded daemon life over 2-4 watchers with the '
            'full request mix (add/rm excluded here: C15), hook outcome '
            'scripts on the spawn path (true/false/raise, ignore flag), exec '
            'failures at the n-th Popen, worker deaths at kernel-call '
            'boundaries / steps / times. at every quiescent point the list, '
            'numprocesses, stats and status replies are compared with the '
            'simulated kernel table (partition of live children, dead pids '
            'and zombies bounded by one periodic check that really ran, no '
            'transient status). systematic part: a worker death before every '
            'kernel call of start / incr / reload base scenarios. non-trivial '
            '= a fault fired while an operation was in flight; distinct = '
            '(event kind, abstract daemon state) sequence hash')
    chunk = 100
    enum_hard_budget = {'quick': 60, 'thorough': 3000}
    REQS = ['start', 'stop', 'restart', 'reload', 'incr', 'decr', 'set',
            'kill', 'signal', 'list', 'status']
    WEIGHTS = [4, 3, 3, 3, 3, 2, 2, 1, 1, 0.5, 0.5]

    def gen(self, rng, tier, seed):
        cfg = gen.gen_base_cfg(rng, seed, nwatch=(2, 2, 3, 4),
                               respawn=rng.choice([True, True, True, False]),
                               # workers with children and grandchildren of
                               # their own in a sixth of the cases
                               kids=rng.random() < 0.17,
                               autostart_p=0.85, max_age_p=0.1,
                               stop_children_p=0.1,
                               stop_signals=(15, 15, 15, 2, 10),
                               kinds=('obedient', 'slow', 'stubborn',
                                      'selfexit'))
        for wc in cfg['watchers']:
            if rng.random() < 0.4:
                wc['hooks'] = gen.gen_hooks(rng)
            if rng.random() < 0.15:
                # hooks around signals, stops and reaps: whatever they answer,
                # no worker may end up alive and unlisted
                wc.setdefault('hooks', {}).update(gen.gen_hooks(
                    rng, names=('before_signal', 'after_signal',
                                'before_stop', 'after_stop', 'before_reap',
                                'after_reap'), p=0.5, bad_p=0.6))
            if rng.random() < 0.3:
                wc['opts']['max_retry'] = rng.choice([1, 2, 5])
        if rng.random() < 0.15:
            # captured output: every worker comes with pipes and redirector
            # registrations whose descriptor numbers are reused by the next
            # worker, possibly of another watcher
            for wc in cfg['watchers']:
                if rng.random() < 0.8:
                    wc['stream_objects'] = True
        if rng.random() < 0.35:
            n = rng.choice([1, 2, 3, 6])
            start = rng.randrange(1, 15)
            cfg['exec_fail'] = {str(start + i): rng.choice([2, 13, 11, 24, 12])
                                for i in range(n)}
        n = rng.choice([2, 3, 4, 6, 8]) if tier == 'quick' else \
            rng.choice([3, 5, 8, 12, 16])
        ops = gen.gen_history(rng, cfg, n, self.REQS, self.WEIGHTS,
                              quiet_p=0.6)
        for op in ops:
            if op['op'] == 'req' and op['cmd'] == 'set' and \
                    rng.random() < 0.12:
                # a command line no worker can be built from (unbalanced
                # quote): every later spawn of that watcher fails before the
                # fork, with a ValueError instead of an exec error
                wc = cfg['watchers'][op['w'] % len(cfg['watchers'])]
                op['props'] = {'options': {
                    'cmd': 'worker --marker=%s "unbalanced' % wc['marker']}}
        if rng.random() < 0.15:
            gen.add_on_demand(rng, cfg, ops)
        return {'cfg': cfg, 'ops': ops}

    def enum_cases(self, tier, master):
        nb = 6 if tier == 'quick' else 120
        return [{'sweep_base': i, 'master': master} for i in range(nb)]

    def base_case(self, i, master):
        seed = (master * 1000003 + i) & 0xffffffffffff
        rng = random.Random('c04-sweep/%d/%d' % (master, i))
        cfg = gen.gen_base_cfg(rng, seed, nwatch=(1, 2), numproc=(1, 2, 3),
                               kinds=('obedient', 'slow', 'stubborn'),
                               singleton_p=0.0, grace=[0, 0.05, 0.25])
        cmd = rng.choice(['start', 'incr', 'reload', 'restart', 'set'])
        op = {'op': 'req', 'cmd': cmd, 'w': 0, 'props': {}, 'waiting': True,
              'place': 'now', 'sync': True}
        if cmd == 'incr':
            op['props'] = {'nb': 2}
        if cmd == 'set':
            op['props'] = {'options': {'numprocesses': rng.choice([0, 1, 4])}}
        if cmd == 'reload' and rng.random() < 0.5:
            op['props'] = {'sequential': True}
        pre = []
        if cmd == 'start':
            pre = [{'op': 'req', 'cmd': 'stop', 'w': 0, 'props': {},
                    'waiting': True, 'place': 'now', 'sync': True}]
        return {'cfg': cfg, 'ops': pre + [op, {'op': 'quiet', 'checks': 1}]}, \
            len(pre)

    def run(self, case):
        if 'sweep_base' in case:
            return self.run_sweep(case)
        ep = C04Episode(case)
        ep.run()
        return self.result(ep)

    def run_sweep(self, case):
        base, at = self.base_case(case['sweep_base'], case['master'])
        ep = C04Episode(base)
        ep.run()
        res = self.result(ep, nontrivial=False)
        r = ep.op_reqs.get(at)
        multi = []
        res['multi'] = multi
        if r is None or r.disp_seq is None or not r.replies:
            return res
        K = max(1, (r.done_call or r.disp_call_end) - r.sent_call)
        nworkers = 3
        for k in range(1, min(K, 100) + 1):
            for wj in range(nworkers):
                how = 'exit' if (k + wj) % 2 else 'kill'
                c = copy.deepcopy(base)
                d = {'op': 'die', 'w': 0, 'j': wj, 'how': how,
                     'place': {'calls': k}}
                if how == 'exit':
                    d['arg'] = 3
                c['ops'].insert(at, d)
                e2 = C04Episode(c)
                e2.run()
                rr = self.result(e2, nontrivial=True)
                for v in rr['violations']:
                    v['case'] = c
                multi.append(rr)
        return res


PROP = C04()
