"""C19 - watchers start in priority order, paced by the warmup delays."""
from .base import Prop
from ..lifecycle import Episode
from .. import gen

EPS = 1e-6


class C19Episode(Episode):
    def setup(self):
        super().setup()
        self.windows = []       # (label, seq_from, seq_to, names or None)
        self.paced = {}         # pid -> spawned by the pacing spawn loop
        k = self.world.kernel
        k.on_spawn = lambda p: self.paced.__setitem__(
            p.pid, 'spawn_processes' in k.sender())

    def started(self):
        # the daemon start itself is the first window
        self.windows.append(('daemon-start', 0, self.world.sim.seq, None))
        self.judge_daemon_start()

    def judge_daemon_start(self):
        k = self.world.kernel
        for i, wc in enumerate(self.cfg['watchers']):
            if wc['opts'].get('autostart', True) is False:
                sp = [p.pid for p in k.spawns if p.marker == self.marker(i)]
                st = self.ask('status', {'name': wc['name']})
                self.probes['autostart_false_checked'] += 1
                if sp or not isinstance(st, dict) or \
                        st.get('status') != 'stopped':
                    self.viol('autostart_false_started',
                              '%s has autostart=false: spawns %s, status %r '
                              'after the daemon start' % (wc['name'], sp, st),
                              once=wc['name'])

    def op_req(self, i, op):
        super().op_req(i, op)
        r = self.op_reqs.get(i)
        if r is not None and op.get('c19_window') and r.replies and \
                r.status == 'ok':
            self.windows.append((op['cmd'], r.disp_seq, r.done_seq,
                                 op.get('c19_names')))

    def judge_window(self, label, s0, s1, names):
        k = self.world.kernel
        gw = float(self.cfg.get('warmup_delay', 0))
        info = {}
        for i, wc in enumerate(self.cfg['watchers']):
            info[self.marker(i)] = (wc['name'], wc['opts'].get('priority', 0),
                                    float(wc['opts'].get('warmup_delay', 0)))
        sp = [p for p in k.spawns if s0 < p.spawn_seq <= s1
              and p.marker in info]
        if not sp:
            return
        self.probes['start_windows_judged'] += 1
        # group consecutive spawns by watcher
        groups = []
        for p in sp:
            if groups and groups[-1][0] == p.marker:
                groups[-1][1].append(p)
            else:
                groups.append((p.marker, [p]))
        seen = set()
        for m, ps in groups:
            if m in seen:
                self.viol('watchers_interleaved',
                          '%s: spawns of %s resume after another watcher '
                          'began: order %s' % (label, info[m][0],
                                               [info[g[0]][0] for g in groups]),
                          once=(label, s0))
                return
            seen.add(m)
        prios = [info[m][1] for m, ps in groups]
        for a, b in zip(prios, prios[1:]):
            if b > a:
                self.viol('priority_order',
                          '%s: watchers began in order %s with priorities %s '
                          '(must be descending)' %
                          (label, [info[g[0]][0] for g in groups], prios),
                          once=(label, s0))
                break
        if len(groups) > 1:
            self.probes['multi_watcher_windows'] += 1
            if len(set(prios)) < len(prios):
                self.probes['priority_ties'] += 1
        for m, ps in groups:
            wd = info[m][2]
            for a, b in zip(ps, ps[1:]):
                if b.spawn_time - a.spawn_time < wd - EPS:
                    self.viol('warmup_delay_not_kept',
                              '%s: %s spawned %d and %d only %.6f s apart, '
                              'warmup_delay is %s' %
                              (label, info[m][0], a.pid, b.pid,
                               b.spawn_time - a.spawn_time, wd),
                              once=(label, s0, m))
                    break
            if len(ps) > 1 and wd > 0:
                self.probes['warmup_gaps_checked'] += 1
        for (m1, p1), (m2, p2) in zip(groups, groups[1:]):
            gap = p2[0].spawn_time - p1[-1].spawn_time
            if gap < gw - EPS:
                self.viol('global_warmup_not_kept',
                          '%s: %s began %.6f s after the last spawn of %s, '
                          'global warmup_delay is %s' %
                          (label, info[m2][0], gap, info[m1][0], gw),
                          once=(label, s0, m2))
                break
            if gw > 0:
                self.probes['global_gaps_checked'] += 1

    def judge_pacing(self):
        """consecutive spawns of one watcher made by the pacing spawn loop
        (Watcher.spawn_processes: start sequences and the periodic check's
        replacements of workers that died meanwhile) are at least its
        warmup_delay apart - also across the end of a start sequence"""
        k = self.world.kernel
        for i, wc in enumerate(self.cfg['watchers']):
            wd = float(wc['opts'].get('warmup_delay', 0))
            if wd <= 0:
                continue
            m = self.marker(i)
            sp = [p for p in k.spawns if p.marker == m]
            for a, b in zip(sp, sp[1:]):
                if not (self.paced.get(a.pid) and self.paced.get(b.pid)):
                    continue
                stopped_between = any(
                    topic == 'watcher.%s.stop' % wc['name'].lower() and
                    a.spawn_time <= t <= b.spawn_time
                    for (seq, t, topic, obj) in self.world.ctx.events)
                if stopped_between or (
                        a.term_first is not None and
                        a.term_first[0] <= b.spawn_time):
                    # the daemon itself had begun to terminate the earlier one
                    # (a start called off by a hook, a stop, a worker its
                    # after_spawn hook rejected): the later spawn belongs to
                    # another start, not to the same sequence
                    continue
                self.probes['paced_gaps_checked'] += 1
                if b.spawn_time - a.spawn_time < wd - EPS:
                    self.viol('warmup_delay_not_kept',
                              'paced spawns: %s spawned %d and %d only %.6f '
                              's apart, warmup_delay is %s' %
                              (wc['name'], a.pid, b.pid,
                               b.spawn_time - a.spawn_time, wd),
                              once=('paced', m), where='across_sequences')
                    break

    def final(self):
        for (label, s0, s1, names) in self.windows:
            self.judge_window(label, s0, s1, names)
        self.judge_pacing()

    final_gone = final


class C19(Prop):
    id = 'C19'
    level = 'exploration'
    rule = ('one case = 2-5 watchers with seeded priorities (ties, '
            'negatives), numprocesses 1-4, per-watcher and global warmup '
            'delays (0 included), autostart flags (6 % of the cases run the real '
            'circusd.main(), the arbiter owning its loop), in 15 % before_spawn hooks '
            'that block for a different time at each call, in 12 % a hook that '
            'calls a watcher\'s start off after it has spawned; triggers: daemon start, '
            'stop-all then start (all), start / restart with a glob matching '
            'several watchers; worker deaths during the start sequence. the '
            'kernel spawn log (virtual timestamps) inside each start window '
            'is judged. non-trivial = a window with at least two watchers; '
            'distinct = (event kind, abstract daemon state) sequence hash')
    chunk = 150
    budget = {'quick': 30, 'thorough': 600}

    def gen_blocking(self, rng, tier, seed):
        """the real circusd.main(): the arbiter owns its loop (the start-up
        sequence is a future of the running loop, not awaited by start())"""
        cfg = gen.gen_base_cfg(rng, seed, nwatch=(2, 3, 4),
                               numproc=(1, 1, 2), priority=True,
                               singleton_p=0.0, kinds=('obedient',),
                               warmup=[0, 1, 2], grace=[0, 0.05])
        cfg['warmup_delay'] = rng.choice([0, 1])
        cfg['sockets'] = []
        cfg['pidfile'] = False
        cfg['max_vtime'] = 900.0
        for wc in cfg['watchers']:
            wc['opts']['numprocesses'] = max(1, wc['opts']['numprocesses'])
            if rng.random() < 0.5:
                wc['opts']['autostart'] = False
        if all(wc['opts'].get('autostart', True) is False
               for wc in cfg['watchers']):
            cfg['watchers'][0]['opts'].pop('autostart')
        startup = sum(w['opts']['numprocesses'] * w['opts']['warmup_delay']
                      for w in cfg['watchers']) + \
            cfg['warmup_delay'] * len(cfg['watchers'])
        ops = [{'op': 'dsig', 'sig': 15, 'at': startup + 3.0}]
        return {'cfg': cfg, 'ops': ops, 'kind': 'blocking'}

    def run_blocking(self, case):
        from . import c08
        from ..lifecycle import Violation
        r = c08.C08Run(case).run()
        viol = []
        for wc in case['cfg']['watchers']:
            if wc['opts'].get('autostart', True) is False:
                sp = [t for (m, t) in getattr(r, 'spawn_log', [])
                      if m == wc['marker']]
                if sp:
                    viol.append(Violation(
                        'autostart_false_started',
                        '%s has autostart=false and no start request was '
                        'sent: the daemon start (arbiter running its own '
                        'loop) spawned workers for it at +%s s'
                        % (wc['name'], ['%.2f' % t for t in sp[:3]]),
                        mode='blocking'))
        r.violations = viol
        r.probes = {'autostart_false_checked_in_blocking_mode': sum(
            1 for wc in case['cfg']['watchers']
            if wc['opts'].get('autostart', True) is False)}
        return r

    def gen(self, rng, tier, seed):
        if rng.random() < 0.06:
            return self.gen_blocking(rng, tier, seed)
        cfg = gen.gen_base_cfg(rng, seed, nwatch=(2, 3, 3, 4, 5),
                               numproc=(1, 1, 2, 3, 4), priority=True,
                               autostart_p=0.85, singleton_p=0.05,
                               kinds=('obedient', 'selfexit'),
                               warmup=[0, 0, 0.05, 0.3, 1.7],
                               grace=[0, 0.05, 0.25])
        cfg['warmup_delay'] = rng.choice([0, 0, 0.05, 0.5, 1.1])
        cfg['run_start'] = True
        nw = len(cfg['watchers'])
        ops = []
        if rng.random() < 0.12 and nw >= 2:
            # a daemon built from a configuration file: a watcher re-created
            # by reloadconfig (its section changed) keeps its place in the
            # priority order of the next start of everything
            cfg['from_ini'] = True
            cfg['warmup_delay'] = rng.choice([0, 1])
            for i, wc in enumerate(cfg['watchers']):
                wc['opts']['warmup_delay'] = rng.choice([0, 0, 1])
                wc['opts']['priority'] = rng.choice([0, 5, 10, 20, 30])
                wc['opts'].pop('singleton', None)
                wc['opts']['numprocesses'] = max(1, wc['opts']['numprocesses'])
            best = max(range(nw), key=lambda i: (
                cfg['watchers'][i]['opts']['priority'], -i))
            target = rng.choice([best, best, rng.randrange(nw)])
            ops.extend([
                {'op': 'editini', 'w': target,
                 'env': {'X': str(rng.randrange(100))}, 'place': 'now'},
                {'op': 'req', 'cmd': 'reloadconfig', 'w': None, 'props': {},
                 'waiting': True, 'place': 'now', 'sync': True},
                {'op': 'req', 'cmd': 'stop', 'w': None, 'props': {},
                 'waiting': True, 'place': 'now', 'sync': True},
                {'op': 'req', 'cmd': 'start', 'w': None, 'props': {},
                 'waiting': True, 'place': 'now', 'sync': True,
                 'c19_window': True},
                {'op': 'quiet', 'checks': 1}])
            return {'cfg': cfg, 'ops': ops}
        if rng.random() < 0.25:
            # "started together" also when one of them is already running but
            # short of workers (respawn off, a worker lost): the start fills
            # it up, and the next watcher still has to wait its turn
            a = rng.randrange(nw)
            b = (a + 1 + rng.randrange(max(1, nw - 1))) % nw
            wa = cfg['watchers'][a]
            wa['opts']['respawn'] = False
            wa['opts']['numprocesses'] = max(2, wa['opts']['numprocesses'])
            wa['opts'].pop('singleton', None)
            wa['opts'].pop('autostart', None)
            cfg['watchers'][b]['opts'].pop('autostart', None)
            cfg['warmup_delay'] = rng.choice([0.5, 1.1])
            ops.extend([
                {'op': 'die', 'w': a, 'j': 0, 'how': 'kill', 'place': 'now'},
                {'op': 'quiet', 'checks': 1},
                {'op': 'req', 'cmd': 'stop', 'w': b, 'props': {},
                 'waiting': True, 'place': 'now', 'sync': True},
                {'op': 'req', 'cmd': 'start', 'w': None, 'props': {},
                 'waiting': True, 'place': 'now', 'sync': True,
                 'c19_window': True},
                {'op': 'quiet', 'checks': 1}])
        if rng.random() < 0.15:
            # a before_spawn hook that waits for something (blocking the
            # daemon) - for a different time at every call
            for wc in cfg['watchers']:
                if rng.random() < 0.6:
                    wc['hooks'] = {'before_spawn': {
                        'script': [rng.choice(['true', 'true', 'block:0.01',
                                               'block:0.2', 'block:0.6',
                                               'block:1.5'])
                                   for _ in range(8)], 'ignore': False}}
        if rng.random() < 0.12:
            # a watcher whose start is called off after it has spawned (a
            # hook answers false): the next one still waits its turn
            wc = rng.choice(cfg['watchers'])
            wc['opts']['numprocesses'] = max(2, wc['opts']['numprocesses'])
            wc['opts'].pop('singleton', None)
            if rng.random() < 0.5:
                wc['hooks'] = {'after_start': {'script': ['false'],
                                               'ignore': False}}
            else:
                wc['hooks'] = {rng.choice(['before_spawn', 'after_spawn']): {
                    'script': ['true', 'false'], 'ignore': False}}
            cfg['warmup_delay'] = rng.choice([0.5, 1.1])
        if rng.random() < 0.06:
            # "retry indefinitely" and a handful of spawn attempts that fail
            # (fork: EAGAIN) inside the start-up sequence
            wc = rng.choice(cfg['watchers'])
            wc['opts']['max_retry'] = -1
            wc['opts']['numprocesses'] = max(2, wc['opts']['numprocesses'])
            wc['opts'].pop('singleton', None)
            wc['opts']['warmup_delay'] = rng.choice([1.1, 1.7])
            k0 = rng.randrange(1, 6)
            cfg['exec_fail'] = dict((str(k0 + i), 11) for i in range(5))
        for _ in range(rng.choice([0, 1, 2, 3])):
            kind = rng.choice(['startall', 'restartglob', 'startglob'])
            glob = rng.choice(['w*', 'w*', 'W*', 'w[0-2]', 'w[13]', '*'])
            if kind == 'startall':
                ops.append({'op': 'req', 'cmd': 'stop', 'w': None,
                            'props': {}, 'waiting': True, 'place': 'now',
                            'sync': True})
                ops.append({'op': 'req', 'cmd': 'start', 'w': None,
                            'props': {}, 'waiting': True, 'place': 'now',
                            'sync': True, 'c19_window': True})
            elif kind == 'startglob':
                ops.append({'op': 'req', 'cmd': 'stop', 'w': None,
                            'props': {'name': glob}, 'waiting': True,
                            'place': 'now', 'sync': True})
                ops.append({'op': 'req', 'cmd': 'start', 'w': None,
                            'props': {'name': glob}, 'waiting': True,
                            'place': 'now', 'sync': True, 'c19_window': True})
            else:
                ops.append({'op': 'req', 'cmd': 'restart', 'w': None,
                            'props': {'name': glob}, 'waiting': True,
                            'place': 'now', 'sync': True, 'c19_window': True})
            # deaths inside the start sequence
            for _k in range(rng.choice([0, 1, 2])):
                ops.insert(len(ops) - 1,
                           gen.gen_death(rng, nw, place=rng.choice(
                               [{'calls': rng.randrange(1, 40)},
                                {'steps': rng.randrange(1, 40)},
                                {'dt': rng.choice([0.01, 0.2, 0.6, 1.5])}])))
            # a kill request (the one command outside the slot) for a worker
            # inside the start sequence: its replacement waits for the
            # periodic check like that of any other dead worker
            if rng.random() < 0.3:
                wk = rng.randrange(nw)
                ops.insert(len(ops) - 1, {
                    'op': 'req', 'cmd': 'kill', 'w': wk,
                    'props': {'pid': {'w': wk, 'j': 0}}, 'waiting': False,
                    'place': {'dt': rng.choice([0.1, 0.3, 0.6, 1.2, 2.0])}})
            if kind != 'restartglob' and rng.random() < 0.25:
                # the same request once more while the sequence is under
                # way: refused (the slot is taken), the pacing is untouched
                dup = dict(ops[-1], waiting=rng.random() < 0.5,
                           place={'dt': rng.choice([0.05, 0.3, 0.6, 1.2])})
                dup.pop('sync', None)
                dup.pop('c19_window', None)
                ops.insert(len(ops) - 1, dup)
            ops.append({'op': 'quiet', 'checks': 1})
        return {'cfg': cfg, 'ops': ops}

    def run(self, case):
        if case.get('kind') == 'blocking':
            r = self.run_blocking(case)
            return {'violations': [v.as_dict() for v in r.violations],
                    'fired': r.fired, 'probes': r.probes, 'ops': {},
                    'sig': 'blocking/%s' % case['cfg'].get('seed'),
                    'nontrivial': True, 'stats': getattr(r, 'stats', {}),
                    'aborted': None, 'digest': getattr(r, 'digest', None)}
        ep = C19Episode(case)
        ep.run()
        nt = ep.probes.get('multi_watcher_windows', 0) > 0
        return self.result(ep, nontrivial=nt)


PROP = C19()
