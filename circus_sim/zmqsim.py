"""Fake ZeroMQ: ROUTER control stream, PUB event socket, DEALER clients and a
simulated transport that can delay, duplicate, reorder and drop frames."""
import json

import zmq as _zmq

POLLIN = _zmq.POLLIN
SNDMORE = _zmq.SNDMORE


class SimPub(object):
    def __init__(self, ctx):
        self.ctx = ctx
        self.closed = False
        self.linger = None
        self.bound = None
        self.sent = ctx.events        # list of (seq, t, topic, obj)

    def bind(self, endpoint):
        self.bound = endpoint

    def send_multipart(self, msg, *a, **kw):
        if self.closed:
            raise _zmq.ZMQError(_zmq.ENOTSOCK)
        sim = self.ctx.sim
        topic = msg[0].decode('utf8') if isinstance(msg[0], bytes) else msg[0]
        body = msg[1]
        if isinstance(body, bytes):
            body = body.decode('utf8')
        try:
            obj = json.loads(body)
        except (ValueError, RecursionError):
            obj = body
        seq = sim.rec('event', topic, body if len(body) < 200 else body[:200])
        self.sent.append((seq, sim.now, topic, obj))
        if self.ctx.on_event is not None:
            self.ctx.on_event(seq, sim.now, topic, obj)

    def close(self, *a, **kw):
        self.closed = True


class SimRouter(object):
    def __init__(self, ctx):
        self.ctx = ctx
        self.closed = False
        self.linger = None
        self.bound = None
        ctx.routers.append(self)

    def bind(self, endpoint):
        self.bound = endpoint
        hook = self.ctx.on_bind
        if hook is not None:
            hook(endpoint)

    def close(self, *a, **kw):
        self.closed = True


class SimRouterStream(object):
    """zmq.eventloop.zmqstream.ZMQStream stand-in for the controller"""

    def __init__(self, socket, loop=None):
        self.socket = socket
        self.ctx = socket.ctx
        self.io_loop = loop
        self._cb = None
        self._parts = []
        self.closed_ = False
        self.sent = self.ctx.replies     # list of (seq, t, cid, raw)
        self.flushes = 0
        self.ctx.router_stream = self

    def on_recv(self, cb, copy=True):
        self._cb = cb

    def closed(self):
        return self.closed_

    def send(self, msg, flags=0, **kw):
        if self.closed_ or self.socket.closed:
            raise _zmq.ZMQError(_zmq.ENOTSOCK)
        if isinstance(msg, str):
            msg = msg.encode('utf8')
        self._parts.append(msg)
        if not (flags & SNDMORE):
            parts, self._parts = self._parts, []
            self.ctx._router_out(parts)

    def flush(self, *a, **kw):
        self.flushes += 1

    def close(self, *a, **kw):
        self.closed_ = True

    # environment side ----------------------------------------------------
    def inject(self, frames):
        """frames arrive on the ROUTER socket: run the handler as a loop step"""
        if self.closed_ or self._cb is None:
            self.ctx.dropped_at_closed += 1
            return False
        self.ctx.loop.call_soon(self._run, frames)
        return True

    def _run(self, frames):
        if self.closed_ or self._cb is None:
            self.ctx.dropped_at_closed += 1
            return
        hook = self.ctx.around_dispatch
        if hook is not None:
            hook(self._cb, frames)
        else:
            self._cb(frames)


class SimDealer(object):
    def __init__(self, ctx):
        self.ctx = ctx
        self.identity = None
        self.closed = False
        self.inbox = []
        self.endpoint = None
        self.stream = None
        ctx.dealers.append(self)

    def setsockopt(self, opt, val):
        if opt == _zmq.IDENTITY:
            self.identity = val
            self.ctx.by_identity[val] = self
        elif opt == getattr(_zmq, 'CONFLATE', None):
            # keep only the last message: whatever the owner has not read
            # yet is overwritten by the next arrival
            self.conflate = bool(val)

    def connect(self, endpoint):
        self.endpoint = endpoint

    def disconnect(self, endpoint):
        self.endpoint = None

    def send(self, msg, flags=0, **kw):
        if self.closed:
            raise _zmq.ZMQError(_zmq.ENOTSOCK)
        if isinstance(msg, str):
            msg = msg.encode('utf8')
        self.ctx.transport.to_router(self, msg)

    def recv(self, flags=0):
        if not self.inbox:
            raise _zmq.Again()
        return self.inbox.pop(0)

    def close(self, *a, **kw):
        self.closed = True

    def _arrive(self, msg):
        if self.closed:
            return
        if getattr(self, 'conflate', False):
            del self.inbox[:]
        self.inbox.append(msg)
        if self.stream is not None:
            self.stream._notify()


class SimPoller(object):
    """zmq.Poller stand-in for the synchronous client: polling steps the
    simulated world (the client is called from outside the loop)."""
    ctx = None

    def __init__(self):
        self.socks = []

    def register(self, sock, flags=POLLIN):
        self.socks.append(sock)

    def poll(self, timeout=None):
        ctx = self.socks[0].ctx
        ready = [s for s in self.socks if s.inbox]
        if ready:
            return [(s, POLLIN) for s in ready]
        sim = ctx.sim
        deadline = sim.now + (timeout or 0) / 1000.0
        ctx.poll_calls += 1
        ctx.pump(lambda: any(s.inbox for s in self.socks), deadline)
        lag = getattr(ctx, 'client_lag', 0.0)
        if lag and any(s.inbox for s in self.socks):
            # the calling thread gets the processor late: what arrives in the
            # meantime queues up behind the frame that woke it
            ctx.pump(lambda: False, sim.now + lag)
        return [(s, POLLIN) for s in self.socks if s.inbox]


class SimDealerStream(object):
    """ZMQStream stand-in for AsyncCircusClient (one message per callback run,
    further messages re-scheduled behind already queued callbacks, like
    pyzmq's _handle_events / add_callback)."""

    def __init__(self, socket, loop=None):
        self.socket = socket
        self.ctx = socket.ctx
        socket.stream = self
        self._recv_cb = None
        self._scheduled = False
        self.closed_ = False
        self.errors = []

    def send(self, msg, flags=0, callback=None, **kw):
        self.socket.send(msg)
        if callback is not None:
            self.ctx.loop.call_soon(callback, [msg], None)

    def on_recv(self, cb, copy=True):
        self._recv_cb = cb
        if cb is not None and self.socket.inbox:
            self._notify()

    def stop_on_recv(self):
        self._recv_cb = None

    def close(self, *a, **kw):
        self.closed_ = True
        self.socket.close()

    def _notify(self):
        if not self._scheduled and not self.closed_:
            self._scheduled = True
            self.ctx.loop.call_soon(self._handle_events)

    def _handle_events(self):
        self._scheduled = False
        if self.closed_ or self._recv_cb is None or not self.socket.inbox:
            return
        msg = self.socket.inbox.pop(0)
        try:
            self._recv_cb([msg])
        except Exception as e:       # pyzmq logs and carries on
            self.errors.append(repr(e))
        if self.socket.inbox:
            self._notify()


class Transport(object):
    """dealer <-> router frames with seeded faults (off by default)."""

    def __init__(self, ctx, rng=None, latency=(0.0, 0.0), drop=0.0, dup=0.0,
                 faults_dealer_to_router=True):
        self.ctx = ctx
        self.rng = rng
        self.latency = latency
        self.drop = drop
        self.dup = dup
        self.stats = {'sent': 0, 'dropped': 0, 'duplicated': 0, 'delayed': 0,
                      'reordered': 0, 'injected': 0}
        self._last_arrival = {}

    def _lat(self):
        lo, hi = self.latency
        if hi <= 0:
            return 0.0
        return lo + self.rng.random() * (hi - lo)

    def _plan(self, key):
        """-> list of delays for the copies of one frame ([] = dropped)"""
        self.stats['sent'] += 1
        r = self.rng
        if r is None:
            return [0.0]
        if self.drop and r.random() < self.drop:
            self.stats['dropped'] += 1
            return []
        d = [self._lat()]
        if self.dup and r.random() < self.dup:
            self.stats['duplicated'] += 1
            d.append(d[0] + self._lat() + 1e-6)
        now = self.ctx.sim.now
        for x in d:
            if x > 0:
                self.stats['delayed'] += 1
            last = self._last_arrival.get(key)
            if last is not None and now + x < last:
                self.stats['reordered'] += 1
            self._last_arrival[key] = max(last or 0, now + x)
        return d

    def to_router(self, dealer, payload):
        ctx = self.ctx
        cid = dealer.identity
        ctx.sim.rec('c2r', cid, payload[:120])
        for d in self._plan(('r', cid)):
            frames = [cid, payload]
            if d <= 0:
                ctx.router_stream.inject(frames) if ctx.router_stream else None
            else:
                ctx.sim.after(d, lambda f=frames: ctx.router_stream and
                              ctx.router_stream.inject(f), 'frame')

    def to_dealer(self, cid, payload):
        ctx = self.ctx
        dealer = ctx.by_identity.get(cid)
        if dealer is None:
            return
        for d in self._plan(('d', cid)):
            if d <= 0:
                dealer._arrive(payload)
            else:
                ctx.sim.after(d, lambda: dealer._arrive(payload), 'frame')

    def inject_to_dealer(self, cid, payload, delay=0.0):
        """a stale / foreign reply appears on the client's socket"""
        dealer = self.ctx.by_identity.get(cid)
        if dealer is None:
            return
        self.stats['injected'] += 1
        if isinstance(payload, str):
            payload = payload.encode('utf8')
        if delay <= 0:
            dealer._arrive(payload)
        else:
            self.ctx.sim.after(delay, lambda: dealer._arrive(payload), 'frame')


class SimContext(object):
    def __init__(self, sim, loop):
        self.sim = sim
        self.loop = loop
        self.events = []          # PUB: (seq, t, topic, obj)
        self.replies = []         # ROUTER out: (seq, t, step, cid, raw, obj)
        self.routers = []
        self.dealers = []
        self.pubs = []
        self.by_identity = {}
        self.router_stream = None
        self.transport = Transport(self)
        self.on_reply = None
        self.on_event = None
        self.on_bind = None
        self.around_dispatch = None
        self.pump = None           # set by the world: pump(cond, deadline)
        self.poll_calls = 0
        self.dropped_at_closed = 0
        self.closed = False

    def socket(self, kind):
        if kind == _zmq.PUB:
            s = SimPub(self)
            self.pubs.append(s)
            return s
        if kind == _zmq.ROUTER:
            return SimRouter(self)
        if kind == _zmq.DEALER:
            return SimDealer(self)
        raise NotImplementedError(kind)

    def _router_out(self, parts):
        sim = self.sim
        cid = parts[0]
        raw = parts[1] if len(parts) > 1 else b''
        try:
            obj = json.loads(raw)
        except (ValueError, RecursionError):
            obj = None
        seq = sim.rec('reply', cid if isinstance(cid, bytes) else repr(cid),
                      raw[:160])
        ent = (seq, sim.now, sim.steps, cid, raw, obj, len(parts))
        self.replies.append(ent)
        if self.on_reply is not None:
            self.on_reply(ent)
        if cid in self.by_identity:
            self.transport.to_dealer(cid, raw)

    def term(self):
        self.closed = True

    def destroy(self, *a, **kw):
        self.closed = True


class ModProxy(object):
    """module stand-in: selected attributes overridden, the rest passed on"""

    def __init__(self, real, **over):
        object.__setattr__(self, '_real', real)
        object.__setattr__(self, '_over', over)

    def __getattr__(self, name):
        over = object.__getattribute__(self, '_over')
        if name in over:
            return over[name]
        return getattr(object.__getattribute__(self, '_real'), name)

    def __setattr__(self, name, value):
        object.__getattribute__(self, '_over')[name] = value
