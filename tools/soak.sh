#!/bin/sh
# soak: run every implemented check with several master seeds; print only
# the summary and any alarm.  usage: tools/soak.sh "1 2 3" [tier] [budget]
SEEDS=${1:-"1 2 3"}
TIER=${2:-quick}
BUDGET=${3:-}
cd "$(dirname "$0")/.."
for s in $SEEDS; do
  for p in $(/venv/bin/python -c "
import sys; sys.path.insert(0,'.')
from circus_sim.determinism import implemented
print(' '.join(implemented()))"); do
    if [ -n "$BUDGET" ]; then B="--budget $BUDGET"; else B=""; fi
    VERIF_SEED=$s /venv/bin/python -m circus_sim check --property $p --tier $TIER $B 2>&1 \
      | grep -E "^C[0-9]+ |VIOLATION|oracle=|HARNESS|Traceback|Error" | cut -c1-400 | sed "s/^/[seed $s] /"
  done
done
