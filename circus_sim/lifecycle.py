"""Lifecycle harness: executes an operation list against a simulated daemon.

A *case* is {'cfg': {...}, 'ops': [...]} (JSON).  Operations are armed in list
order; each has a placement ('now', {'steps': n}, {'calls': k}, {'dt': t}).
`wait` / `quiet` operations let the loop run.  Targets are symbolic and
resolved when the operation fires, so a list stays meaningful when the
minimiser drops earlier operations.
"""
import hashlib
from collections import Counter

from .world import World, STATE_CHANGING, READ_ONLY
from .sim import EPOCH

EPS = 1e-6


class Violation(object):
    def __init__(self, oracle, msg, **facts):
        self.oracle = oracle
        self.msg = msg
        self.facts = facts

    def as_dict(self):
        return {'oracle': self.oracle, 'msg': self.msg, 'facts': self.facts}

    def key(self):
        return (self.oracle,) + tuple(sorted(
            (k, str(v)) for k, v in self.facts.items()))


def name_variant(name, case):
    if case == 'upper':
        return name.upper()
    if case == 'lower':
        return name.lower()
    if case == 'swap':
        return name.swapcase()
    return name


class Episode(object):
    def __init__(self, case):
        self.case = case
        self.cfg = case['cfg']
        self.ops = case['ops']
        self.world = None
        self.violations = []
        self.aborted = None
        self.fired = Counter()
        self.probes = Counter()
        self.trace = []
        self.inflight_faults = 0
        self.quiet_points = 0
        self.op_reqs = {}          # op index -> Req
        self.on_quiet = []         # callbacks(ep)
        self.cur_op = None
        self._seen = set()
        self.gone = False

    # ------------------------------------------------------------ helpers
    def viol(self, oracle, msg, once=None, **facts):
        """record a violation; `once` de-duplicates within the episode"""
        if once is not None:
            k = (oracle, once)
            if k in self._seen:
                return None
            self._seen.add(k)
        v = Violation(oracle, msg, **facts)
        self.violations.append(v)
        return v

    @property
    def w(self):
        return self.world

    def wcfg(self, i):
        ws = self.cfg['watchers']
        return ws[i % len(ws)] if ws else None

    def marker(self, i):
        wc = self.wcfg(i)
        return wc.get('marker', wc['name']) if wc else None

    def watcher_obj(self, name):
        a = self.world.arbiter
        return a._watchers_names.get(name.lower())

    def busy(self):
        w = self.world
        return (w.arbiter._exclusive_running_command is not None or
                bool(w.outstanding()))

    def abstract_state(self):
        w = self.world
        k = w.kernel
        out = [w.arbiter._exclusive_running_command]
        for wt in w.arbiter.watchers:
            live = zomb = 0
            for pid in wt.processes:
                p = k.procs.get(pid)
                if p is None:
                    continue
                if p.alive:
                    live += 1
                elif p.state == 'zombie':
                    zomb += 1
            out.append((wt.name, wt._status, wt.numprocesses,
                        len(wt.processes), live, zomb))
        return tuple(out)

    def note(self, kind):
        self.trace.append((kind, self.abstract_state()))

    def signature(self):
        h = hashlib.sha1(repr(self.trace).encode('utf8')).hexdigest()
        return h[:16]

    # ---------------------------------------------------------- placement
    def place(self, place, fn, tag):
        sim = self.world.sim
        if not place or place == 'now' or place.get('now'):
            fn()
        elif 'steps' in place:
            sim.after_steps(int(place['steps']), fn, tag)
        elif 'calls' in place:
            sim.at_boundary(int(place['calls']), fn, tag)
        elif 'dt' in place:
            sim.after(float(place['dt']), fn, tag)
        else:
            raise ValueError('bad placement %r' % (place,))

    # ------------------------------------------------------------ resolve
    def resolve_pid(self, ref):
        """symbolic pid -> number (at firing time)"""
        if isinstance(ref, int):
            return ref
        k = self.world.kernel
        if 'literal' in ref:
            return ref['literal']
        if 'reused' in ref:
            # the pid of a dead worker of that watcher that now belongs to a
            # stranger
            pids = sorted(pid for pid, old in getattr(k, 'reused', {}).items()
                          if old.marker == self.marker(ref['reused']))
            return pids[0] if pids else 999997
        live = sorted(p.pid for p in k.live_by_marker(self.marker(ref['w'])))
        if 'dead' in ref:
            dead = sorted(p.pid for p in k.children_of_daemon()
                          if p.marker == self.marker(ref['w']) and not p.alive)
            if not dead:
                return 999999
            return dead[ref['dead'] % len(dead)]
        if not live:
            return 999999
        pid = live[ref.get('j', 0) % len(live)]
        if 'child' in ref:
            kids = sorted(k.descendants(pid)) if ref.get('deep') else \
                sorted(k.procs[pid].children)
            if not kids:
                return 999998
            return kids[ref['child'] % len(kids)]
        return pid

    def resolve_props(self, op):
        props = op.get('props')
        if props is None:
            return None
        props = dict(props)
        if 'w' in op and op['w'] is not None and 'name' not in props:
            wc = self.wcfg(op['w'])
            props['name'] = name_variant(wc['name'], op.get('case'))
        # not-a-number / infinity travel as markers (case files stay strict
        # JSON) and become the float on the wire: Python's json accepts NaN
        def _num(v):
            if v == '@nan':
                return float('nan')
            if v == '@inf':
                return float('inf')
            return v
        for key in ('graceful_timeout', 'nb'):
            if key in props:
                props[key] = _num(props[key])
        if isinstance(props.get('options'), dict):
            props['options'] = dict((k, _num(v))
                                    for k, v in props['options'].items())
        for key in ('pid', 'childpid'):
            if isinstance(props.get(key), dict):
                ref = props[key]
                props[key] = self.resolve_pid(ref)
                if ref.get('as_str'):
                    # the number as a JSON string (an ill-typed property)
                    props[key] = str(props[key])
        return props

    # ---------------------------------------------------------------- ops
    def run_ops(self):
        for i, op in enumerate(self.ops):
            if self.stopped():
                break
            if self.world.daemon_gone():
                self.fired['ops_skipped_daemon_gone'] += 1
                break
            self.cur_op = i
            getattr(self, 'op_' + op['op'])(i, op)
        self.cur_op = None

    def stopped(self):
        s = self.world.sim
        if s.hung:
            self.aborted = 'daemon_hung'
            return True
        if s.capped:
            self.aborted = 'cap_' + s.capped
            return True
        return False

    def op_req(self, i, op):
        w = self.world

        def fire():
            if w.ctx.router_stream is None or w.ctx.router_stream.closed_:
                self.fired['req_after_close'] += 1
                return
            props = self.resolve_props(op)
            r = w.request(op['cmd'], props, waiting=op.get('waiting', False),
                          cast=op.get('cast', False), raw=op.get('raw'),
                          mid=op.get('mid', True), meta={'op': i})
            r.wname = props.get('name') if isinstance(props, dict) else None
            self.op_reqs[i] = r
            if self.busy():
                self.inflight_faults += 1
                self.fired['req_inflight'] += 1
            self.fired['req:' + str(op['cmd'])] += 1
            self.note('req:' + str(op['cmd']))
            w.deliver(r)
        self.place(op.get('place'), fire, 'op')
        if op.get('sync'):
            r = self.op_reqs.get(i)
            if r is not None:
                if r.cast:
                    w.run(lambda: r.dispatched, max_dt=op.get('max_dt', 900.0))
                else:
                    w.run(lambda: bool(r.replies) or r.dispatched == 'lost',
                          max_dt=op.get('max_dt', 900.0))

    def op_die(self, i, op):
        w = self.world
        k = w.kernel

        def fire():
            live = sorted(p.pid for p in k.live_by_marker(self.marker(op['w'])))
            if not live:
                self.fired['die_noop'] += 1
                return
            pid = live[op.get('j', 0) % len(live)]
            if 'child' in op:
                # a child process of that worker instead
                kids = sorted(c for c in k.procs[pid].children
                              if k.procs[c].alive)
                if not kids:
                    self.fired['die_noop'] += 1
                    return
                pid = kids[op['child'] % len(kids)]
            how = op.get('how', 'exit')
            inflight = self.busy()
            if how == 'leader':
                # (not a death)
                k.external_leader_exit(pid)
                self.fired['leader_exit'] += 1
                return
            elif how == 'exit':
                k.external_exit(pid, op.get('arg', 0))
            elif how == 'kill':
                k.external_signal(pid, 9)
            else:
                k.external_signal(pid, op.get('arg', 15))
            pl = op.get('place') or {}
            kind = 'calls' if 'calls' in pl else 'steps' if 'steps' in pl \
                else 'dt' if 'dt' in pl else 'now'
            self.fired['die_' + kind] += 1
            if inflight:
                self.inflight_faults += 1
                self.fired['die_inflight'] += 1
            if w.sim.in_step:
                self.fired['die_inside_step'] += 1
            self.note('die:' + how)
            self.died(pid, op)
        self.place(op.get('place'), fire, 'op')

    def died(self, pid, op):
        pass

    def op_dsig(self, i, op):
        w = self.world

        def fire():
            if self.busy():
                self.inflight_faults += 1
                self.fired['dsig_inflight'] += 1
            self.fired['dsig:%d' % op['sig']] += 1
            self.note('dsig')
            w.daemon_signal(op['sig'])
        self.place(op.get('place'), fire, 'op')

    def op_pidreuse(self, i, op):
        """the pid of a worker that is dead and waited for (but still in the
        watcher's table) goes to a process that is none of the daemon's"""
        k = self.world.kernel

        def fire():
            me = k.getpid_value
            dead = sorted(p.pid for p in list(k.procs.values())
                          if p.orig_parent == me and p.state == 'reaped' and
                          p.marker == self.marker(op['w']))
            if dead and k.reuse_pid(dead[op.get('j', 0) % len(dead)]):
                self.fired['pid_reused'] += 1
        self.place(op.get('place'), fire, 'op')

    def op_clockjump(self, i, op):
        """the wall clock is stepped (time.time() jumps, timers and sleeps
        are unaffected - they run on the monotonic clock)"""
        sim = self.world.sim

        def fire():
            sim.wall_offset += float(op['delta'])
            sim.rec('clockjump', op['delta'])
            self.fired['clock_jump'] += 1
            self.note('clockjump')
        self.place(op.get('place'), fire, 'op')

    def op_wait(self, i, op):
        w = self.world
        kind = op.get('kind', 'time')
        n = op.get('n', 1)
        if kind == 'time':
            w.run(None, max_dt=float(n))
        elif kind == 'steps':
            w.run(None, max_steps=int(n))
        elif kind == 'checks':
            t = w.checks_done + int(n)
            w.run(lambda: w.checks_done >= t, max_dt=op.get('max_dt', 600.0))
        elif kind == 'replies':
            w.run(lambda: not w.outstanding() and
                  all(r.dispatched for r in w.reqs),
                  max_dt=op.get('max_dt', 900.0))
        else:
            raise ValueError(kind)

    def op_quiet(self, i, op):
        ok = self.world.settle(extra_checks=op.get('checks', 0),
                               max_dt=op.get('max_dt', 900.0))
        if self.stopped():
            return
        if ok:
            self.quiet_point()
        else:
            self.fired['quiet_not_reached'] += 1

    def quiet_point(self):
        self.quiet_points += 1
        self.note('quiet')
        for cb in self.on_quiet:
            cb(self)

    # ------------------------------------------------------------ running
    def setup(self):
        self.world = World(self.cfg)
        self.clients = []
        self.pending_conn = False
        self.accept_seq = -1          # spawn_seq of the last accepting worker
        self.lsocks = []
        self.ondemand_markers = set(
            wc.get('marker', wc['name']) for wc in self.cfg.get('watchers', [])
            if wc.get('opts', {}).get('on_demand'))
        if self.cfg.get('sockets'):
            # on-demand watchers need real listening sockets: the arbiter
            # select()s on them in its periodic check
            import os
            from circus.sockets import CircusSocket
            d = self.world.scratch_dir()
            for i, sc in enumerate(self.cfg['sockets']):
                self.lsocks.append(CircusSocket(
                    name=sc['name'], path=os.path.join(d, 's%d.sock' % i)))
            ws = [self.world.make_watcher(wc) for wc in self.cfg['watchers']]
            self.world.build(watchers=ws, sockets=self.lsocks)
            self.world.kernel.on_spawn = self.accept_for
        elif self.cfg.get('from_ini'):
            # the daemon is built from a real configuration file, so that
            # reloadconfig requests (and edits of the file) are possible
            import os
            self.ini_path = os.path.join(self.world.scratch_dir(),
                                         'circus.ini')
            self.ini_np = {}
            self.ini_env = {}
            self.write_ini()
            for wc in self.cfg['watchers']:
                self.world.mix[wc.get('marker', wc['name'])] = wc.get('mix')
            self.world.build_from_ini(self.ini_path)
        else:
            self.world.build()

    INI_OPTS = ('copy_env', 'numprocesses', 'graceful_timeout', 'warmup_delay',
                'singleton', 'stop_signal', 'stop_children', 'respawn',
                'priority', 'autostart', 'max_age', 'max_age_variance',
                'max_retry', 'send_hup')

    def write_ini(self):
        from . import ini
        ws = []
        for i, wc in enumerate(self.cfg['watchers']):
            ent = {'name': wc['name'],
                   'cmd': wc.get('cmd') or
                   'worker --marker=%s' % wc.get('marker', wc['name'])}
            for k in self.INI_OPTS:
                if k in wc.get('opts', {}):
                    ent[k] = wc['opts'][k]
            if i in self.ini_np:
                ent['numprocesses'] = self.ini_np[i]
            for hname, spec in (wc.get('ini_hooks') or {}).items():
                # spec: 'fn' or 'fn, flag' (functions of circus_sim.hookmods)
                ent['hooks.%s' % hname] = 'circus_sim.hookmods.' + spec
            ws.append(ent)
        envs = [(wc['name'], wc['ini_env_section'])
                for wc in self.cfg['watchers'] if wc.get('ini_env_section')]
        envs += [(self.cfg['watchers'][i]['name'], e)
                 for i, e in sorted(self.ini_env.items())]
        txt = ini.render(
            circus={'check_delay': self.cfg.get('check_delay', 1.0),
                    'warmup_delay': self.cfg.get('warmup_delay', 0)},
            watchers=ws, env=self.cfg.get('ini_global_env'),
            env_sections=envs)
        with open(self.ini_path, 'w') as f:
            f.write(txt)

    def op_editini(self, i, op):
        """the configuration file is edited (numprocesses of one watcher,
        or its environment - which makes reloadconfig replace the watcher)"""
        def fire():
            if not self.cfg.get('from_ini'):
                return
            wi = op.get('w', 0) % len(self.cfg['watchers'])
            if 'np' in op:
                self.ini_np[wi] = op['np']
            if 'env' in op:
                self.ini_env[wi] = op['env']
            self.write_ini()
            self.fired['editini'] += 1
        self.place(op.get('place'), fire, 'op')

    def op_connect(self, i, op):
        """a client connects to a managed socket (socket event)"""
        import socket as _socket

        def fire():
            if not self.lsocks:
                return
            s = self.lsocks[op.get('s', 0) % len(self.lsocks)]
            try:
                c = _socket.socket(_socket.AF_UNIX, _socket.SOCK_STREAM)
                c.setblocking(False)
                try:
                    c.connect(s.path)
                except BlockingIOError:
                    pass
                self.clients.append(c)
                self.fired['socket_event'] += 1
                self.pending_conn = True
                self.socket_event(op)
            except OSError:
                pass
        self.place(op.get('place'), fire, 'op')

    def socket_event(self, op):
        pass

    def accept_for(self, p):
        """the freshly spawned on-demand worker accepts what is queued"""
        if p.marker not in self.ondemand_markers:
            return
        for s in self.lsocks:
            while True:
                try:
                    s.setblocking(False)
                    conn, _ = s.accept()
                    conn.close()
                except (BlockingIOError, OSError):
                    break
        if self.pending_conn:
            self.accept_seq = p.spawn_seq
        self.pending_conn = False

    def run(self):
        try:
            self.setup()
            self.world.start(run=self.cfg.get('run_start', True))
            if not self.stopped():
                self.started()
                self.run_ops()
            if not self.stopped():
                self.finish()
        finally:
            self.collect()
            if self.world is not None:
                self.world.close()
        return self

    def started(self):
        pass

    def finish(self):
        w = self.world
        if not w.daemon_gone():
            w.kernel.fault_stop()
            ok = w.settle(extra_checks=self.cfg.get('final_checks', 3),
                          max_dt=self.cfg.get('final_max_dt', 1800.0))
            if self.stopped():
                return
            if not w.daemon_gone():
                if not ok:
                    self.aborted = 'no_quiescence'
                    return
                self.quiet_point()
                self.final()
                return
        # quit / daemon restart: let the loop drain, then judge what is
        # left without talking to the (closed) control socket
        w.sim._step_events = []
        w.sim._bound_events = []
        w.run(None, max_dt=30.0)
        self.gone = True
        if not self.stopped():
            self.final_gone()

    def final(self):
        pass

    def final_gone(self):
        pass

    def collect(self):
        w = self.world
        if w is None:
            return
        s = w.sim
        self.stats = {
            'steps': s.steps, 'calls': s.ncalls,
            'vtime': s.now - EPOCH,
            'spawns': len(w.kernel.spawns),
            'signals': len(w.kernel.signals),
            'events': len(w.ctx.events),
            'reqs': len(w.reqs),
            'checks': w.checks_done,
            'checks_refused': w.checks_refused,
            'exec_failures': w.kernel.exec_failures,
            'max_step_blocked': s.max_step_blocked,
        }
        for tag, n in s.fired.items():
            if tag in ('death', 'self_exit', 'frame'):
                self.fired['env_' + tag] += n
        tr = w.ctx.transport.stats
        for k2 in ('dropped', 'duplicated', 'delayed', 'reordered',
                   'injected'):
            if tr.get(k2):
                self.fired['transport_' + k2] += tr[k2]
        if w.kernel.exec_failures:
            self.fired['exec_failure'] += w.kernel.exec_failures
        if w.kernel.signal_failures:
            self.fired['signal_eperm'] += w.kernel.signal_failures
        self.digest = w.digest() if s.log_enabled else None
        import socket as _socket
        for c in getattr(self, 'clients', []):
            try:
                c.close()
            except Exception:
                pass
        for sk in getattr(self, 'lsocks', []):
            try:
                _socket.socket.close(sk)
            except Exception:
                pass

    # -------------------------------------------------------------- views
    def ask(self, cmd, props=None):
        """synchronous read-only request -> reply object (or None)"""
        r = self.world.call(cmd, props)
        return r.reply
