#!/bin/sh
# re-confirm every archived seeded change against the current /repo HEAD
cd "$(dirname "$0")/.."
for d in seeded/S*; do
  props=$(/venv/bin/python -c "import json;m=json.load(open('$d/meta.json'));print(' '.join(sorted(set(c.split(':')[0] for c in m['caught_by'])) or m['property']))")
  echo "#### $d ($props)"
  mkdir -p /tmp/seedall && rm -rf /tmp/seedall/x && mkdir /tmp/seedall/x
  cp $d/patch.diff /tmp/seedall/x/seed_patch.diff; cp $d/demo.py /tmp/seedall/x/seed_demo.py
  base=$(/venv/bin/python -c "import json;print(json.load(open('$d/meta.json')).get('base_commit',''))")
  SEED_BASE=${base:-HEAD} tools/seedcheck.sh /tmp/seedall/x "$props" ${1:-20} 2>&1 | grep -E "^==|^exit|PATCH|^ +[0-9]+ (C[0-9]+ |  oracle)" | cut -c1-200
done
rm -rf /tmp/seedall
