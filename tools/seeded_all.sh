#!/bin/sh
# re-confirm every archived seeded change against the current /repo HEAD
# usage: tools/seeded_all.sh [budget]   (SHARD=i/n runs every n-th seed from i)
cd "$(dirname "$0")/.."
X=/tmp/seedall.$$
i=0; si=${SHARD%/*}; sn=${SHARD#*/}
for d in seeded/S*; do
  i=$((i+1))
  if [ -n "$SHARD" ] && [ $((i % sn)) -ne $((si % sn)) ]; then continue; fi
  props=$(/venv/bin/python -c "import json;m=json.load(open('$d/meta.json'));print(' '.join(sorted(set(c.split(':')[0] for c in m['caught_by'])) or m['property']))")
  echo "#### $d ($props)"
  rm -rf $X && mkdir -p $X
  cp $d/patch.diff $X/seed_patch.diff; cp $d/demo.py $X/seed_demo.py
  base=$(/venv/bin/python -c "import json;print(json.load(open('$d/meta.json')).get('base_commit',''))")
  SEED_BASE=${base:-HEAD} tools/seedcheck.sh $X "$props" ${1:-20} 2>&1 | grep -E "^==|^exit|PATCH|^ +[0-9]+ (C[0-9]+ |  oracle)" | cut -c1-200
done
rm -rf $X
