"""C11 - a request refused as invalid or conflicting changes nothing."""
import json
import os
import pwd

from .base import Prop
from ..lifecycle import Episode
from ..snapshot import snapshot, diff
from .. import gen


class C11Episode(Episode):
    def setup(self):
        from ..world import World
        self.world = World(self.cfg)
        kw = {}
        if self.cfg.get('endpoint_owner'):
            d = self.world.scratch_dir()
            path = os.path.join(d, 'ctl.sock')
            open(path, 'w').close()
            self.cfg['endpoint'] = 'ipc://' + path
            kw['endpoint_owner'] = self.cfg['endpoint_owner']
        self.world.build(**kw)
        self.world.snapshot_fn = snapshot
        self.world.dispatch_hooks.append(self.on_dispatched)

    def on_dispatched(self, r):
        if r.cast or not r.sync_replies:
            return
        o = r.sync_replies[0][5]
        if not isinstance(o, dict) or o.get('status') != 'error':
            return
        op = self.ops[r.meta['op']] if 'op' in r.meta else {}
        defect = op.get('defect', 'none')
        self.probes['refused_' + defect] += 1
        if r.excl_before is not None:
            self.probes['refused_while_operation_in_flight'] += 1
        if r.snap_before is None:
            return
        d = diff(r.snap_before, r.snap_after)
        if d and getattr(r, 'env_during', 0):
            # the environment acted inside this dispatch (another request
            # arrived, a worker died): the loop's queues are not the
            # request's doing
            d = [x for x in d if x.split(':')[0] not in ('ready', 'timers')]
        if d:
            names = [x.split(':')[0] for x in d]
            if all(n in ('events', 'ready', 'timers') for n in names):
                what = 'event_published'
            elif any('.' in n for n in names):
                what = 'earlier_options_applied'
            else:
                what = names[0]
            self.viol('refused_request_changed_state',
                      '%s %s answered error %r (errno %s) but changed: %s'
                      % (r.cmd, json.dumps(r.props, default=str)[:200],
                         o.get('reason'), o.get('errno'), '; '.join(d[:4])),
                      once=r.idx, cmd=str(r.cmd), defect=defect,
                      changed=what)


VALID_OPTS = [('warmup_delay', 7.5), ('graceful_timeout', 9.0),
              ('stop_signal', 10), ('max_retry', 3), ('send_hup', True),
              ('max_age', 50), ('env', {'A': 'b'}), ('stop_children', True),
              ('respawn', False), ('args', 'x y'), ('max_age_variance', 7)]
BAD_OPTS = {
    'bad_key': ('bogus_key', 1),
    'bad_type_numprocesses': ('numprocesses', 'two'),
    'bad_type_warmup': ('warmup_delay', 'fast'),
    'bad_type_env': ('env', ['A=b']),
    'bad_type_bool': ('send_hup', 'yes'),
    'bad_value_uid': ('uid', 'no-such-user-xyz'),
    'bad_value_gid': ('gid', 'no-such-group-xyz'),
    'bad_value_nan': ('graceful_timeout', '@nan'),
    'bad_value_inf': ('warmup_delay', '@inf'),
    'bad_value_uid_number': ('uid', 54321),
    'bad_value_gid_number': ('gid', 54321),
    'bad_value_uid_numeric_string': ('uid', '54321'),
    'bad_value_hook': ('hooks', {'before_start': 'no.such.module.fn'}),
    'bad_value_hook_name': ('hooks', {'no_such_hook': 'os.getpid'}),
    'bad_type_stop_signal': ('stop_signal', 'TERM!!'),
    'bad_rlimit': ('rlimit_bogus', 5),
    'bad_stream': ('stdout_stream', {'filename': '/tmp/x'}),
    'bad_value_stream_class': ('stdout_stream.class', 'no.such.StreamClass'),
}


def gen_bad_request(rng, cfg, nwatch):
    """-> op (a request corrupted in a known way)"""
    w = rng.randrange(nwatch)
    kind = rng.choice(['invalid_json', 'unknown_command', 'unknown_watcher',
                       'missing_property', 'ill_typed_property', 'bad_option',
                       'bad_option', 'bad_option', 'bad_signal', 'duplicate',
                       'singleton', 'owner', 'nonobject_properties',
                       'odd_waiting', 'combo', 'odd_valid'])
    op = {'op': 'req', 'w': w, 'props': {}, 'waiting': rng.random() < 0.4,
          'place': 'now', 'defect': kind}
    p = op['props']
    if kind == 'nonobject_properties':
        # the properties member itself is not an object
        import json as _json
        op['cmd'] = 'raw'
        op['raw'] = _json.dumps({
            'command': rng.choice(['stop', 'start', 'restart', 'reload',
                                   'numwatchers', 'list', 'quit',
                                   'reloadconfig']),
            'properties': rng.choice([[], [1], 'x', 5, ['name'], True]),
            'id': 'nop%d' % rng.randrange(10 ** 6)})
    elif kind == 'odd_waiting':
        # a valid request whose waiting flag is not a boolean: whatever the
        # daemon makes of it, an error reply must mean that nothing happened
        op['cmd'] = rng.choice(['stop', 'start', 'incr', 'decr', 'restart',
                                'reload', 'rm', 'set'])
        op['waiting'] = False
        if op['cmd'] == 'set':
            p['options'] = {'warmup_delay': 7.5}
        if op['cmd'] in ('incr', 'decr'):
            p['nb'] = 1
        p['waiting'] = rng.choice(['maybe', 3, ['yes'], {'a': 1}, 'no!',
                                   1.5, 'True '])
    elif kind == 'invalid_json':
        op['cmd'] = 'raw'
        op['raw'] = rng.choice(['{"command": "stop", "properties": {"name": '
                                '"w0"}', 'stop w0', '{command: stop}',
                                '{"id": "x", "command": "stop",}',
                                '\xff\xfe', '[1, 2'])
    elif kind == 'unknown_command':
        op['cmd'] = rng.choice(['stopp', 'kil', 'exec', 'shutdown', 'sto p',
                                'stöp'])
    elif kind == 'unknown_watcher':
        op['cmd'] = rng.choice(['stop', 'start', 'restart', 'reload', 'incr',
                                'decr', 'set', 'rm', 'signal', 'kill', 'get',
                                'options', 'stats', 'list'])
        op['w'] = None
        p['name'] = rng.choice(['nosuch', 'w0x', 'w', 'w00', ''])
        if op['cmd'] == 'set':
            p['options'] = {'warmup_delay': 7.5}
        if op['cmd'] == 'signal':
            p['signum'] = 15
        if op['cmd'] == 'get':
            p['keys'] = ['numprocesses']
        if op['cmd'] in ('start', 'stop', 'restart') and rng.random() < 0.5:
            p['match'] = rng.choice(['simple', 'glob', 'regex', 'fuzzy'])
    elif kind == 'missing_property':
        op['cmd'] = rng.choice(['set', 'signal', 'add', 'get', 'incr', 'rm',
                                'options', 'kill'])
        if op['cmd'] == 'set' and rng.random() < 0.5:
            pass                     # name kept, options missing
        elif op['cmd'] == 'signal' and rng.random() < 0.5:
            pass                     # signum missing
        elif op['cmd'] == 'add':
            op['w'] = None
            p['name'] = 'newone'     # cmd missing
        elif op['cmd'] == 'get':
            pass                     # keys missing
        else:
            op['w'] = None           # name missing
            if op['cmd'] == 'set':
                p['options'] = {'warmup_delay': 7.5}
            if op['cmd'] == 'signal':
                p['signum'] = 15
    elif kind == 'ill_typed_property':
        op['cmd'] = rng.choice(['set', 'incr', 'decr', 'kill', 'signal',
                                'add', 'get', 'stop', 'rm'])
        x = rng.random()
        if op['cmd'] == 'set':
            p['options'] = rng.choice([['warmup_delay', 1], 'warmup_delay=1',
                                       5, None])
        elif op['cmd'] in ('incr', 'decr'):
            p['nb'] = rng.choice(['a', [1], {'n': 1}, None, 1.5])
        elif op['cmd'] == 'kill':
            p.update(rng.choice([{'pid': 'abc'}, {'graceful_timeout': 'soon'},
                                 {'pid': [1]}, {'signum': {'s': 15}}]))
        elif op['cmd'] == 'signal':
            p['signum'] = rng.choice([15, 10, 28])
            p.update(rng.choice([{'pid': 'abc'}, {'childpid': 5},
                                 {'pid': {'w': w, 'j': 0}, 'childpid': 'x'},
                                 # the pid of a real worker, as a string
                                 {'pid': {'w': w, 'j': 0, 'as_str': True}},
                                 {'pid': {'w': w, 'j': 0, 'as_str': True},
                                  'recursive': True},
                                 {'pid': {'w': w, 'j': 0, 'as_str': True},
                                  'children': True},
                                 {'pid': {'w': w, 'j': 0},
                                  'childpid': {'w': w, 'j': 0, 'child': 0,
                                               'as_str': True}}]))
        elif op['cmd'] == 'add':
            op['w'] = None
            p.update({'name': 'newone', 'cmd': 'worker --marker=new',
                      'options': rng.choice([['a'], 'x', 7])})
        elif op['cmd'] == 'get':
            p['keys'] = rng.choice([5, 'numprocesses', None, ['nosuchkey']])
        else:
            op['w'] = None
            p['name'] = rng.choice([5, ['w0'], None, {'n': 'w0'}, True])
    elif kind == 'bad_option':
        bad = rng.choice(sorted(BAD_OPTS))
        op['defect'] = bad
        good = rng.sample(VALID_OPTS, rng.choice([0, 1, 2, 3]))
        items = list(good)
        items.insert(rng.randrange(len(items) + 1), BAD_OPTS[bad])
        if rng.random() < 0.7:
            op['cmd'] = 'set'
            p['options'] = dict(items)
        else:
            op['cmd'] = 'add'
            op['w'] = None
            p.update({'name': rng.choice(['newone', 'Another']),
                      'cmd': 'worker --marker=new', 'options': dict(items),
                      'start': rng.random() < 0.5})
    elif kind == 'bad_signal':
        op['cmd'] = rng.choice(['signal', 'kill'])
        p['signum'] = rng.choice(['TERM!!', 'SIG_IGN', 'KILL;x', 'SIGFOO',
                                  '', 'SIG', 'TE RM', 'ITIMER_REAL', 'term '])
        if rng.random() < 0.5:
            p['pid'] = {'w': w, 'j': 0}
    elif kind == 'duplicate':
        op['cmd'] = 'add'
        op['w'] = None
        nm = cfg['watchers'][w]['name']
        p.update({'name': rng.choice([nm, nm.upper(), nm.title()]),
                  'cmd': 'worker --marker=dup',
                  'start': rng.random() < 0.5})
        if rng.random() < 0.5:
            p['options'] = dict(rng.sample(VALID_OPTS, 2))
        elif rng.random() < 0.4:
            # ... or a name no event topic can be built from (legal JSON,
            # no UTF-8 form), in a request without an options member
            op['defect'] = 'unencodable_name'
            p['name'] = rng.choice(['caf\ud800', '\udc80x'])
    elif kind == 'odd_valid':
        # well-typed values nobody checks the range of (accepted today): if
        # a request carrying one is refused, then before anything is applied
        op['cmd'] = 'set'
        op['defect'] = 'odd_valid_value'
        items = rng.sample(VALID_OPTS, rng.choice([1, 2])) + \
            [('numprocesses', rng.choice([1, 2, 3]))]
        rng.shuffle(items)
        items.append(rng.choice([('max_age_variance', -1), ('max_retry', -1),
                                 ('priority', -3)]))
        p['options'] = dict(items)
    elif kind == 'combo':
        # options that are fine one by one and constrain each other: if the
        # request is refused, then as a whole
        op['cmd'] = 'set'
        op['defect'] = 'option_combination'
        items = [('singleton', True), ('numprocesses', rng.choice([2, 3]))]
        rng.shuffle(items)
        items += rng.sample(VALID_OPTS, rng.choice([0, 1]))
        p['options'] = dict(items)
    elif kind == 'singleton':
        op['cmd'] = 'set'
        op['defect'] = 'singleton_numprocesses'
        op['w'] = 'singleton'
        good = rng.sample(VALID_OPTS, rng.choice([0, 1, 2]))
        items = list(good)
        items.insert(rng.randrange(len(items) + 1), ('numprocesses', 2))
        p['options'] = dict(items)
    elif kind == 'owner':
        op['cmd'] = 'add'
        op['w'] = None
        op['defect'] = 'endpoint_owner'
        p.update({'name': 'newone', 'cmd': 'worker --marker=new',
                  'start': rng.random() < 0.5})
        x = rng.random()
        if x < 0.4:
            p['options'] = {'uid': 'nobody', 'warmup_delay': 3}
        elif x < 0.7:
            p['options'] = {'warmup_delay': 3}
    return op


class C11(Prop):
    id = 'C11'
    level = 'exploration'
    rule = ('one case = a daemon with 2-3 watchers (one singleton, some '
            'stopped) and a sequence of requests each corrupted in a known '
            'way (invalid JSON, unknown command / watcher, missing or '
            'ill-typed property, invalid option key / type / unusable value '
            'with the bad option at every position of a multi-option set or '
            'add, bad signal, duplicate name in any case, singleton '
            'numprocesses, endpoint-owner mismatch, conflict with an '
            'operation in flight), interleaved with valid requests and '
            'deaths. for every synchronous error reply the daemon snapshot '
            '(directory, options, env, hooks, statuses, pids, kernel spawn / '
            'signal log, published events, loop queues) taken before the '
            'dispatch must equal the one taken after. non-trivial = an error '
            'reply while an operation was in flight or a multi-option '
            'request; distinct = (event kind, abstract daemon state) hash')
    chunk = 150
    budget = {'quick': 40, 'thorough': 900}

    def gen(self, rng, tier, seed):
        cfg = gen.gen_base_cfg(rng, seed, nwatch=(2, 3),
                               kinds=('obedient', 'slow', 'stubborn'),
                               kids=rng.random() < 0.3,
                               autostart_p=0.8, singleton_p=0.0)
        sw = cfg['watchers'][-1]
        sw['opts']['singleton'] = True
        sw['opts']['numprocesses'] = 1
        if rng.random() < 0.35:
            cfg['endpoint_owner'] = pwd.getpwuid(os.getuid()).pw_name
        nw = len(cfg['watchers'])
        ops = []
        n = rng.choice([3, 5, 8, 12]) if tier == 'quick' else \
            rng.choice([6, 12, 20, 30])
        for _ in range(n):
            x = rng.random()
            if x < 0.2:
                r = gen.gen_request(rng, nw, rng.choice(
                    ['restart', 'reload', 'stop', 'start', 'incr', 'decr']),
                    waiting=True)
                ops.append(r)
                # refused requests while it is in flight
                for _k in range(rng.choice([1, 2, 3])):
                    b = gen_bad_request(rng, cfg, nw)
                    b['place'] = gen.gen_place(rng, True)
                    ops.append(b)
                    if rng.random() < 0.5:
                        c = gen.gen_request(rng, nw, rng.choice(
                            ['incr', 'stop', 'set', 'rm', 'restart']),
                            place=gen.gen_place(rng, True))
                        c['defect'] = 'conflict'
                        ops.append(c)
                ops.append({'op': 'wait', 'kind': 'replies'})
            elif x < 0.3:
                ops.append(gen.gen_death(rng, nw, inflight=False))
            else:
                ops.append(gen_bad_request(rng, cfg, nw))
                if rng.random() < 0.3:
                    ops.append({'op': 'wait', 'kind': 'steps',
                                'n': rng.choice([1, 3])})
        for op in ops:
            if op.get('w') == 'singleton':
                op['w'] = nw - 1
        return {'cfg': cfg, 'ops': ops}

    def run(self, case):
        ep = C11Episode(case)
        ep.run()
        nt = ep.probes.get('refused_while_operation_in_flight', 0) > 0 or \
            any(len((op.get('props') or {}).get('options') or ()) > 1
                for op in case['ops'] if isinstance(
                    (op.get('props') or {}).get('options'), dict))
        return self.result(ep, nontrivial=nt)


PROP = C11()
