"""C03 - stop signal first, SIGKILL only after the grace period."""
from .base import Prop
from ..lifecycle import Episode
from .. import gen

EPS = 1e-6
POLL = 0.1


class C03Episode(Episode):
    def setup(self):
        super().setup()
        w = self.world
        k = w.kernel
        # reference model of the options the statement speaks about
        self.model = {}
        for wc in self.cfg['watchers']:
            o = wc['opts']
            self.model[wc.get('marker', wc['name'])] = {
                'g': float(o.get('graceful_timeout', 30.0)),
                's': int(o.get('stop_signal', 15)),
                'children': bool(o.get('stop_children', False))}
        self.name2marker = dict((wc['name'].lower(),
                                 wc.get('marker', wc['name']))
                                for wc in self.cfg['watchers'])
        self.episodes = {}       # pid -> dict
        self.kid_sigs = {}
        self.kids_seen = {}
        self.alive_kids = {}
        k.sig_context = self.sig_context
        k.on_signal = self.on_signal
        w.reply_hooks.append(self.on_reply)
        w.dispatch_hooks.append(self.on_dispatched)

    def on_dispatched(self, r):
        # options are applied synchronously by the set dispatch; a waiting
        # set is answered later, after other requests may have been handled
        if r.cmd == 'set' and r.accepted and r.wname:
            self.apply_set(r)

    def sig_context(self):
        r = self.world.dispatching
        return r.idx if r is not None else None

    def on_reply(self, r, ent):
        # accepted set requests change the reference options
        if r.cmd == 'set' and isinstance(ent[5], dict) and \
                ent[5].get('status') == 'ok' and r.wname:
            self.apply_set(r, again=False)

    def apply_set(self, r, again=True):
        # (once per request unless it is the request being dispatched: the
        # late reply of a waiting set must not undo a set dispatched after it)
        done = self.__dict__.setdefault('_sets_applied', set())
        if r.idx in done and not again:
            return
        done.add(r.idx)
        if True:
            m = self.name2marker.get(r.wname.lower())
            opts = (r.props or {}).get('options') or {}
            if m in self.model:
                if 'graceful_timeout' in opts:
                    self.model[m]['g'] = float(opts['graceful_timeout'])
                if 'stop_signal' in opts:
                    self.model[m]['s'] = int(opts['stop_signal'])

    def on_signal(self, entry, p):
        if p is None:
            return
        k = self.world.kernel
        me = k.getpid_value
        sender = entry['sender'] or []
        d = self.world.dispatching
        if d is not None and d.cmd == 'set' and d.wname:
            # options are applied synchronously at the start of the set
            # dispatch; the kills it triggers already use them
            self.apply_set(d)
        if 'kill_process' not in sender:
            return
        if p.orig_parent != me:
            # a descendant signalled on behalf of its worker
            root = p
            while root is not None and root.orig_parent != me:
                root = k.procs.get(root.orig_parent)
            if root is not None:
                # children may be signalled before or after their worker
                self.kid_sigs.setdefault(root.pid, []).append(
                    (entry['t'], p.pid, entry['sig']))
                if root.pid not in self.kids_seen:
                    self.kids_seen[root.pid] = [
                        c for c in k.descendants(root.pid)
                        if k.procs[c].alive or c == p.pid]
            return
        ep = self.episodes.get(p.pid)
        if ep is None:
            mdl = self.model.get(p.marker)
            if mdl is None:
                return
            g, s = mdl['g'], mdl['s']
            cause = [x for x in sender if x in (
                '_stop', '_restart', '_reload', 'manage_processes',
                'remove_expired_processes', 'execute', 'spawn_process')]
            ridx = entry.get('ctx')
            r = self.world.reqs[ridx] if ridx is not None else None
            if r is not None and r.cmd == 'kill' and 'execute' in sender:
                pr = r.props or {}
                if pr.get('graceful_timeout') is not None:
                    g = float(pr['graceful_timeout'])
                if pr.get('signum') is not None:
                    s = int(pr['signum'])
                cause = ['kill-request']
            # setting options mid-dispatch: model is updated on the reply,
            # which for 'set' comes in the same dispatch; fine
            # (helpers forked by the handler of this very signal did not
            # exist when the stop signal went round)
            kids = [c for c in k.descendants(p.pid) if k.procs[c].alive] \
                if mdl['children'] else []
            if mdl['children'] and p.pid in self.kids_seen:
                kids = sorted(set(kids) | set(self.kids_seen[p.pid]))
            # children forked inside the very loop step in which the round of
            # stop signals is sent (by the handler of this signal, or racing
            # with the daemon's lookup of the children) cannot be expected to
            # have been reached by it
            kids = [c for c in kids
                    if k.procs[c].spawn_step < entry['step']]
            ep = {'t0': entry['t'], 'g': g, 's': s, 'first': entry['sig'],
                  'cause': (cause or ['?'])[0], 'signals': [],
                  'children': mdl['children'], 'kids_at_t0': kids,
                  'kid_signals': [], 'step0': entry['step'],
                  'blocked0': self.world.sim.blocked_total,
                  'zombie_at_t0': entry['effect'] == 'zombie'}
            self.episodes[p.pid] = ep
        ep['signals'].append((entry['t'], entry['sig'], entry['effect'],
                              entry['step']))
        if entry['sig'] == 9 and 'blocked_kill' not in ep:
            # bounded busy-waits of the daemon (reap_process waiting for a
            # SIGKILLed worker's death latency) delay everything else
            ep['blocked_kill'] = self.world.sim.blocked_total - ep['blocked0']
        if entry['sig'] == 9 and 'kids_at_kill' not in ep:
            # children that were alive when the SIGKILL round began (they
            # are signalled just before their worker)
            tk = entry['t']
            early = set(c for (t, c, sg) in self.kid_sigs.get(p.pid, [])
                        if sg == 9 and abs(t - tk) <= 1e-3)
            ep['kids_at_kill'] = sorted(set(
                c for c in k.descendants(p.pid) if k.procs[c].alive) | early)

    def slack(self, ep, upto_step):
        sc = self.cfg.get('step_cost', 0.0)
        return EPS + sc * max(0, upto_step - ep['step0'] + 2) + \
            self.cfg.get('spawn_cost', 0.0) * 12 + \
            ep.get('blocked_kill', 0.0)

    def judge(self):
        w = self.world
        k = w.kernel
        now = w.sim.now
        for pid, ep in self.episodes.items():
            if ep.get('judged'):
                continue
            p = k.procs[pid]
            if ep['zombie_at_t0']:
                # the worker was already dead when the daemon turned to it:
                # signals to a zombie affect no process
                ep['judged'] = True
                self.probes['episode_on_already_dead_worker'] += 1
                continue
            t0, g = ep['t0'], ep['g']
            dead_at = p.death_time
            self.probes['termination_episodes'] += 1
            self.probes['cause_' + ep['cause']] += 1
            if ep['first'] != ep['s']:
                self.viol('wrong_first_signal',
                          'termination of %d (%s) began with signal %s, '
                          'configured/requested stop signal is %s'
                          % (pid, ep['cause'], ep['first'], ep['s']),
                          once=pid, cause=ep['cause'])
            kills = [x for x in ep['signals'] if x[1] == 9]
            if kills and ep['s'] != 9:
                tk = kills[0][0]
                if tk < t0 + g - EPS:
                    self.viol('sigkill_too_early',
                              'pid %d (%s): SIGKILL %.6f s after the stop '
                              'signal, graceful_timeout is %s'
                              % (pid, ep['cause'], tk - t0, g), once=pid,
                              cause=ep['cause'])
                if dead_at is not None and dead_at < t0 + g - POLL - EPS \
                        and dead_at < tk:
                    self.viol('sigkill_to_worker_that_exited_in_time',
                              'pid %d (%s) exited %.4f s after the stop '
                              'signal (grace %s) and was sent SIGKILL at '
                              '+%.4f' % (pid, ep['cause'], dead_at - t0, g,
                                         tk - t0), once=pid,
                              cause=ep['cause'])
                elif dead_at is not None and dead_at <= t0 + g + POLL and \
                        dead_at < tk:
                    self.probes['gray_zone_sigkill_to_zombie'] += 1
            # still alive when the grace period ended -> SIGKILL within one
            # polling step
            deadline = t0 + g + POLL + self.slack(
                ep, kills[0][3] if kills else w.sim.steps)
            # (a worker that died inside the slack - the daemon was busy or
            # blocked when its polling step was due - may never have been
            # seen alive after the grace period)
            alive_at_g = dead_at is None or dead_at > deadline
            if alive_at_g and ep['s'] != 9 and not ep['zombie_at_t0']:
                if not kills:
                    if now > deadline + 1.0 and not w.daemon_gone():
                        self.viol('no_sigkill_after_grace',
                                  'pid %d (%s) ignored signal %s; grace %s '
                                  'ended %.3f s ago and no SIGKILL was sent'
                                  % (pid, ep['cause'], ep['s'], g,
                                     now - t0 - g), once=pid,
                                  cause=ep['cause'])
                    else:
                        continue          # judge later
                elif kills[0][0] > deadline:
                    self.viol('sigkill_too_late',
                              'pid %d (%s): SIGKILL %.6f s after the stop '
                              'signal, grace %s + one polling step is %.3f'
                              % (pid, ep['cause'], kills[0][0] - t0, g,
                                 g + POLL), once=pid, cause=ep['cause'])
                else:
                    self.probes['sigkill_on_time'] += 1
            elif not kills:
                self.probes['exited_in_time_no_sigkill'] += 1
            if ep['children']:
                ks = self.kid_sigs.get(pid, [])
                got = set(c for (t, c, sg) in ks
                          if sg == ep['s'] and abs(t - t0) <= self.slack(
                              ep, ep['step0']))
                def fault_dead(c, t):
                    # killed from outside (an injected fault) before or
                    # while the signals went round
                    q = k.procs[c]
                    return str(q.death_cause).startswith('ext:') and \
                        q.death_time is not None and q.death_time <= t
                missing = [c for c in ep['kids_at_t0'] if c not in got
                           and k.procs[c].orig_parent == pid
                           and not fault_dead(c, t0 + self.slack(
                               ep, ep['step0']))]
                if missing and not ep['zombie_at_t0']:
                    at_once = p.death_time is not None and \
                        p.death_time <= t0 + self.slack(ep, ep['step0'])
                    self.viol('stop_signal_not_sent_to_children',
                              'stop_children: children %s of %d did not get '
                              'signal %s with their parent (parent died %s)' %
                              (missing, pid, ep['s'],
                               'at once' if at_once else 'later / not'),
                              once=pid, parent_died_at_once=at_once)
                elif ep['kids_at_t0']:
                    self.probes['children_signalled'] += 1
            if kills and ep['children']:
                gotk = set(c for (t, c, sg) in self.kid_sigs.get(pid, [])
                           if sg == 9)
                # descendants are enumerated after the parent was signalled:
                # with death latency 0 a dead parent has none (see C18)
                parent_gone = p.death_time is not None and \
                    p.death_time <= kills[0][0]
                # the statement promises the worker's *child processes*;
                # deeper descendants are not claimed (circus misses them:
                # Process.send_signal_child only looks at direct children)
                missing = [c for c in ep.get('kids_at_kill', [])
                           if c not in gotk and k.procs[c].orig_parent == pid
                           and not (str(k.procs[c].death_cause).startswith(
                               'ext:') and k.procs[c].death_time is not None
                               and k.procs[c].death_time <= kills[0][0] +
                               POLL)]
                if missing and not parent_gone:
                    self.viol('final_sigkill_not_sent_to_children',
                              'pid %d got the final SIGKILL, its live '
                              'children %s did not' % (pid, missing),
                              once=pid)
                elif ep.get('kids_at_kill'):
                    self.probes['descendants_sigkilled'] += 1
            ep['judged'] = True

    def collect(self):
        try:
            self.never_sent()
        finally:
            super().collect()

    def never_sent(self):
        w = self.world
        if self.aborted in ('no_quiescence', 'cap_steps', 'cap_vtime') and \
                w is not None and w.arbiter is not None and \
                not w.daemon_gone():
            # faults have stopped and half an hour of virtual time has
            # passed: a stop that was accepted back then and whose workers
            # are alive without ever having been sent a signal
            k = w.kernel
            for r in w.reqs:
                if r.cmd != 'stop' or not r.accepted or r.wname is None or \
                        r.disp_t is None or w.sim.now - r.disp_t < 600.0:
                    continue
                for i, wc in enumerate(self.cfg['watchers']):
                    if wc['name'].lower() != r.wname.lower():
                        continue
                    idle = [p.pid for p in k.live_by_marker(self.marker(i))
                            if p.term_first is None and
                            p.spawn_time < r.disp_t]
                    if idle:
                        self.aborted = None
                        self.viol('stop_signal_never_sent',
                                  'stop of %s was accepted %.0f s ago; its '
                                  'workers %s are alive and were never sent '
                                  'any signal' % (wc['name'],
                                                  w.sim.now - r.disp_t, idle),
                                  once=('never', r.idx))

    def quiet_point(self):
        super().quiet_point()
        self.judge()

    def final(self):
        self.judge()

    def final_gone(self):
        self.judge()


class C03(Prop):
    id = 'C03'
    level = 'exploration'
    rule = ('one case = one seeded daemon life whose workers react to the '
            'stop signal after delays drawn on both sides of and exactly at '
            'graceful_timeout (and at the 0.1 s polling edges), ignore it, or '
            'ignore only it; termination causes stop, restart, decr, set, '
            'reload (all modes), kill request with signum / graceful_timeout '
            'overrides, max_age expiry; stop_children with child processes. '
            'the kernel signal log (virtual timestamps) is judged per '
            'termination episode. non-trivial = a fault or request fired '
            'while an operation was in flight; distinct = (event kind, '
            'abstract daemon state) sequence hash')
    chunk = 120
    REQS = ['stop', 'restart', 'decr', 'set', 'reload', 'kill', 'start',
            'incr', 'signal']
    WEIGHTS = [4, 3, 3, 2, 4, 5, 2, 1, 1]

    def gen(self, rng, tier, seed):
        kids = rng.random() < 0.35
        cfg = gen.gen_base_cfg(rng, seed, kids=kids,
                               stop_children_p=0.7 if kids else 0.1,
                               # (37, 50: real-time signals without a name)
                               stop_signals=(15, 15, 2, 3, 10, 1, 37, 50),
                               max_age_p=0.2,
                               kinds=('obedient', 'slow', 'stubborn',
                                      'selective', 'selfexit'))
        for wc in cfg['watchers']:
            for m in wc['mix']:
                if kids and rng.random() < 0.3:
                    # a helper forked by the handler of the stop signal: it
                    # did not exist when the stop signal went round, the
                    # final SIGKILL has to find it
                    m['late_kids'] = [rng.choice([1, 1, 2])]
                    m.setdefault('kid', {'label': 'kid', 'ignore': 'all'})
                if m.get('label') == 'slow':
                    g = wc['opts']['graceful_timeout']
                    m['delay'] = [rng.choice(gen.delays_around(g, rng))
                                  for _ in range(4)]
        if rng.random() < 0.08:
            # one more cause of termination: an after_spawn hook that refuses
            # a worker now and then (the fresh worker is terminated like any
            # other: stop signal, grace period, SIGKILL)
            wc = rng.choice(cfg['watchers'])
            scr = ['true'] * 8
            for _ in range(rng.choice([1, 2, 3])):
                scr[rng.randrange(8)] = rng.choice(['false', 'raise'])
            wc['hooks'] = {'after_spawn': {'script': scr, 'ignore': False}}
        n = rng.choice([2, 3, 4, 6]) if tier == 'quick' else \
            rng.choice([3, 5, 8, 12])
        ops = gen.gen_history(rng, cfg, n, self.REQS, self.WEIGHTS,
                              death_p=0.15, fault_p=0.4,
                              second_req_kinds=['kill', 'stop', 'decr'])
        for op in ops:
            if op['op'] == 'req' and op['cmd'] == 'kill' and \
                    rng.random() < 0.12:
                # a signal number the designation rules accept and the
                # kernel refuses: the request fails, the worker is untouched
                # - and can be terminated like any other afterwards
                op['props']['signum'] = rng.choice([100, 65, 1000])
        if kids:
            # children of the workers die too, also in the middle of a
            # round of signals
            out = []
            nw = len(cfg['watchers'])
            for op in ops:
                if op['op'] == 'req' and op['cmd'] in (
                        'stop', 'restart', 'kill', 'decr', 'reload') and \
                        rng.random() < 0.25:
                    out.append({'op': 'die', 'w': rng.randrange(nw)
                                if op.get('w') is None else op['w'],
                                'j': rng.randrange(3),
                                'child': rng.randrange(2), 'how': 'kill',
                                'place': rng.choice([
                                    {'calls': rng.randrange(1, 12)},
                                    {'calls': rng.randrange(1, 40)},
                                    {'dt': rng.choice([0.01, 0.1, 0.3])}])})
                out.append(op)
            ops = out
        if rng.random() < 0.08:
            # captured output of workers that write all the time into a
            # stream that fails (disk full): whatever the stream does, the
            # SIGKILL is owed at the end of the grace period
            for wc in cfg['watchers']:
                wc['stream_objects'] = True
            cfg['chatty_markers'] = [wc.get('marker', wc['name'])
                                     for wc in cfg['watchers']]
            cfg['stream_fail'] = rng.random() < 0.7
        if rng.random() < 0.1:
            # the wall clock is stepped while grace periods run: they are
            # lengths of time, not differences of wall-clock readings
            out = []
            for op in ops:
                out.append(op)
                if op['op'] == 'req' and op['cmd'] in (
                        'stop', 'restart', 'kill', 'decr', 'reload'):
                    out.append({'op': 'clockjump',
                                # (no large step backwards: tornado's
                                # PeriodicCallback then pauses the periodic
                                # check for as long - DESIGN 10.4)
                                'delta': rng.choice([3600.0, 86400.0, 2.0,
                                                     -2.0, -0.5, 0.2]),
                                'place': {'dt': rng.choice(
                                    [0.01, 0.04, 0.12, 0.3, 0.6])}})
            ops = out
        for op in ops:
            if op['op'] == 'req' and op['cmd'] == 'set' and \
                    rng.random() < 0.4:
                op['props']['options'] = rng.choice([
                    {'graceful_timeout': rng.choice([0, 0.05, 0.3, 1.0])},
                    {'stop_signal': rng.choice([15, 2, 10])}])
        return {'cfg': cfg, 'ops': ops}

    def run(self, case):
        ep = C03Episode(case)
        ep.run()
        return self.result(ep)


PROP = C03()
