"""C18 - signals reach exactly the addressed workers, with the named signal."""
import signal as _signal

from .base import Prop
from ..lifecycle import Episode
from .. import gen

# every name of the signal module that denotes a signal, aliases included
# (SIGCLD, SIGIOT, SIGPOLL: iterating the enumeration gives canonical
# members only)
MEMBERS = dict((n, int(v)) for n, v in _signal.Signals.__members__.items())
NON_SIGNAL_NAMES = [n for n in dir(_signal)
                    if n.isupper() and n not in MEMBERS and
                    isinstance(getattr(_signal, n), int)]


def classify(desig):
    """-> ('canonical', value) | ('refuse', None) | ('unspecified', None)"""
    if isinstance(desig, bool) or desig is None or isinstance(desig, float):
        return ('unspecified', None)
    if isinstance(desig, int):
        if desig in MEMBERS.values():
            return ('canonical', desig)
        return ('unspecified', None)
    if not isinstance(desig, str):
        return ('unspecified', None)
    s = desig
    if s != s.strip():
        return ('unspecified', None)
    if s.isdigit():
        v = int(s)
        if v in MEMBERS.values():
            return ('canonical', v)
        return ('unspecified', None)
    up = s.upper()
    if up in MEMBERS:
        return ('canonical', MEMBERS[up])
    if 'SIG' + up in MEMBERS:
        return ('canonical', MEMBERS['SIG' + up])
    if '+' in s and up.split('+')[0] in ('SIGRTMIN', 'RTMIN', 'SIGRTMAX',
                                         'RTMAX'):
        return ('unspecified', None)
    if s.lstrip('-+').isdigit():
        return ('unspecified', None)
    return ('refuse', None)


class C18Episode(Episode):
    def setup(self):
        super().setup()
        w = self.world
        k = w.kernel
        k.foreign.update(self.cfg.get('foreign', [1, 77, 4242]))
        k.sig_context = lambda: (w.dispatching.idx
                                 if w.dispatching is not None else None)
        k.on_signal = self.on_signal
        self.name2marker = dict((wc['name'].lower(),
                                 wc.get('marker', wc['name']))
                                for wc in self.cfg['watchers'])
        self.by_req = {}           # req idx -> [(pid, sig, effect)]
        self.refs = {}             # req idx -> reference computed at dispatch
        w.dispatch_hooks.append(self.on_dispatched)
        self.removed_names = set()

        def on_reply(r, ent):
            o = ent[5]
            if r.cmd == 'rm' and r.wname and isinstance(o, dict) and \
                    o.get('status') == 'ok':
                self.removed_names.add(r.wname.lower())
            elif r.cmd == 'add' and r.wname:
                self.removed_names.discard(r.wname.lower())
        w.reply_hooks.append(on_reply)
        orig = w._around_dispatch

        def around(cb, frames):
            r = frames[2] if len(frames) > 2 else None
            if r is not None and r.cmd in ('signal', 'kill'):
                self.refs[r.idx] = self.reference(r)
            return orig(cb, frames)
        w.ctx.around_dispatch = around

    # ------------------------------------------------------------ reference
    def root_of(self, pid):
        """daemon child that pid descends from (or is), else None"""
        k = self.world.kernel
        me = k.getpid_value
        p = k.procs.get(pid)
        seen = 0
        while p is not None and seen < 50:
            if p.orig_parent == me:
                return p
            p = k.procs.get(p.orig_parent)
            seen += 1
        return None

    def reference(self, r):
        """expected (pid set, class, value) for a signal/kill request, from
        the kernel table at dispatch time"""
        k = self.world.kernel
        pr = r.props if isinstance(r.props, dict) else {}
        name = pr.get('name')
        m = self.name2marker.get(name.lower()) if isinstance(name, str) \
            else None
        workers = sorted(p.pid for p in k.live_by_marker(m)) if m else []
        tracked = set()
        wt = self.watcher_obj(name) if isinstance(name, str) else None
        if wt is not None:
            tracked = set(wt.processes)
        workers = [p for p in workers if p in tracked]
        cls, val = classify(pr.get('signum')) if 'signum' in pr else \
            ('absent', None)
        pid = pr.get('pid')
        target = None
        if r.cmd == 'signal':
            if 'pid' in pr:
                base = [pid] if pid in workers else []
            else:
                base = list(workers)
            if pr.get('childpid'):
                cp = pr.get('childpid')
                target = set(c for b in base for c in k.procs[b].children
                             if c == cp and k.procs[c].alive)
            elif pr.get('children'):
                target = set(c for b in base for c in k.procs[b].children
                             if k.procs[c].alive)
            elif pr.get('recursive'):
                target = set(base)
                for b in base:
                    target.update(c for c in k.descendants(b)
                                  if k.procs[c].alive)
            else:
                target = set(base)
        else:       # kill
            if 'pid' in pr and pid is not None:
                target = set([pid]) if pid in workers else set()
            else:
                target = set(workers)
        return {'marker': m, 'workers': workers, 'target': target,
                'cls': cls, 'val': val}

    # ----------------------------------------------------------- observation
    def on_signal(self, entry, p):
        ridx = entry.get('ctx')
        if entry['effect'] in ('probe',):
            return
        r = self.world.reqs[ridx] if ridx is not None else None
        if r is not None:
            self.by_req.setdefault(ridx, []).append(
                (entry['pid'], entry['sig'], entry['effect'], entry['via']))
        if r is not None and r.cmd in ('signal', 'kill') and r.wname and \
                r.wname.lower() in getattr(self, 'removed_names', ()):
            # the named watcher was removed (rm with nostop): its former
            # workers are nobody's workers any more
            self.viol('signal_to_non_worker',
                      '%s request naming the removed watcher %r signalled '
                      'pid %s (signal %s)' % (r.cmd, r.wname, entry['pid'],
                                              entry['sig']),
                      once=('rmw', r.idx), target='former_worker')
            return
        # confinement, judged at delivery time
        root = self.root_of(entry['pid'])
        if root is None:
            self.viol('signal_to_non_worker',
                      'signal %s sent to pid %s which is neither a worker nor '
                      'a descendant of one (request %s %r, via %s)'
                      % (entry['sig'], entry['pid'],
                         r.cmd if r else None, r.props if r else None,
                         (entry['sender'] or [])[:3]),
                      once=('nw', entry['pid']),
                      target='foreign' if entry['effect'] == 'foreign'
                      else 'other')
            return
        if r is not None and r.cmd in ('signal', 'kill'):
            ref = self.refs.get(r.idx)
            if ref and ref['marker'] is not None and \
                    root.marker != ref['marker']:
                self.viol('signal_outside_named_watcher',
                          '%s request for %r signalled pid %s of watcher %s'
                          % (r.cmd, r.props.get('name'), entry['pid'],
                             root.marker), once=('ow', r.idx))

    def on_dispatched(self, r):
        if r.cmd not in ('signal', 'kill') or r.idx not in self.refs:
            return
        ref = self.refs[r.idx]
        got = self.by_req.get(r.idx, [])
        o = r.sync_replies[0][5] if r.sync_replies else None
        refused = isinstance(o, dict) and o.get('status') == 'error'
        pr = r.props if isinstance(r.props, dict) else {}
        # a signal to a zombie affects no process; Process.stop()'s
        # terminate() after the SIGKILL is not the requested signal
        delivered = [(p, s) for (p, s, e, via) in got
                     if e not in ('ESRCH', 'EINVAL', 'zombie')
                     and via != 'terminate']
        kk = self.world.kernel
        # a worker dying *during* the dispatch (an injected fault) and the
        # descendants that can then no longer be found through it are
        # legitimately missed
        died_meanwhile = set()
        def fault_dead(q):
            return (not q.alive) and not str(q.death_cause).startswith('sup:')
        me = kk.getpid_value
        for p in (ref['target'] or ()):
            # (an orphan is no descendant any more: any ancestor counts)
            q, n, gone = kk.procs.get(p), 0, False
            while q is not None and n < 50:
                if fault_dead(q):
                    gone = True
                    break
                if q.orig_parent == me:
                    break
                q = kk.procs.get(q.orig_parent)
                n += 1
            if gone or q is None:
                died_meanwhile.add(p)
        self.probes['%s_%s' % (r.cmd, ref['cls'])] += 1
        if refused:
            if delivered:
                self.viol('signal_sent_by_refused_request',
                          '%s %r answered %r but delivered %s'
                          % (r.cmd, pr, o.get('reason'), delivered),
                          once=r.idx)
            return
        if ref['cls'] == 'refuse':
            self.viol('bad_designation_accepted',
                      '%s with signum %r must be refused, reply was %r '
                      '(delivered %s)' % (r.cmd, pr.get('signum'),
                                          (o or {}).get('status'),
                                          delivered[:4]), once=r.idx,
                      kind=desig_kind(pr.get('signum')))
            return
        if ref['target'] is None or ref['marker'] is None:
            return
        if r.cmd == 'signal':
            if ref['cls'] != 'canonical':
                return
            want = set((p, ref['val']) for p in ref['target'])
            must = set((p, ref['val']) for p in ref['target']
                       if p not in died_meanwhile)
            have = set(delivered)
            if not (must <= have <= want):
                mode = 'childpid' if pr.get('childpid') else \
                    'children' if pr.get('children') else \
                    'recursive' if pr.get('recursive') else 'plain'
                self.viol('signal_set_differs',
                          'signal %r (%s, pid=%r): delivered %s, addressed %s'
                          % (pr.get('signum'), mode, pr.get('pid'),
                             sorted(have), sorted(want)), once=r.idx,
                          mode=mode,
                          missing=bool(want - have), extra=bool(have - want))
            else:
                self.probes['signal_exact'] += 1
        else:
            # kill: the first signal of each addressed worker is sent during
            # the dispatch; nobody else may be touched
            k = self.world.kernel
            sig = ref['val'] if ref['cls'] == 'canonical' else None
            touched = set(self.root_of(p).pid for (p, s) in delivered
                          if self.root_of(p) is not None)
            # (the worker itself, not only something below it)
            direct = set(p for (p, s) in delivered)
            extra = touched - ref['target']
            if extra:
                self.viol('kill_touched_unaddressed_worker',
                          'kill %r: addressed %s, signalled %s' %
                          (pr, sorted(ref['target']), sorted(touched)),
                          once=r.idx, pid_given=repr(pr.get('pid')))
            missing = [p for p in ref['target'] if p not in direct
                       and p not in died_meanwhile
                       and ref['cls'] in ('canonical', 'absent')
                       and not getattr(self.watcher_obj(pr['name'])
                                       .processes.get(p), 'stopping', False)]
            if missing and not extra:
                already = [p for p in missing
                           if any(e['pid'] == p for e in k.signals[:-1])]
                if len(already) != len(missing):
                    self.viol('kill_missed_addressed_worker',
                              'kill %r: addressed %s, the workers that got '
                              'a signal themselves are %s' %
                              (pr, sorted(ref['target']),
                               sorted(direct & set(ref['target']))),
                              once=r.idx)
            if sig is not None:
                wrong = [(p, s) for (p, s) in delivered
                         if p in ref['target'] and s != sig and s != 9]
                if wrong:
                    self.viol('kill_wrong_signal',
                              'kill %r: signal %s requested, delivered %s' %
                              (pr, sig, wrong), once=r.idx)


class C18DesigEpisode(Episode):
    """the designation as the stop_signal of a watcher section in the
    configuration file, or as the stop_signal option of a set request: it
    must denote the same signal as in a signal / kill request, anything else
    is refused (the file is not loaded / the request answered with an error)
    and no signal of another number is ever used in its place"""

    def setup(self):
        import os
        from ..world import World
        from .. import ini
        self.desig = self.case['desig']
        self.via = self.case['via']
        self.refused = None
        self.clients = []
        self.lsocks = []
        self.pending_conn = False
        self.world = World(self.cfg)
        if self.via != 'ini':
            self.world.build()
            return
        d = self.world.scratch_dir()
        path = os.path.join(d, 'circus.ini')
        wc = self.cfg['watchers'][0]
        ent = {'name': wc['name'],
               'cmd': 'worker --marker=%s' % wc['marker'],
               'numprocesses': wc['opts']['numprocesses'],
               'graceful_timeout': wc['opts']['graceful_timeout'],
               'stop_signal': self.desig}
        with open(path, 'w') as f:
            f.write(ini.render(circus={'check_delay': 1.0}, watchers=[ent]))
        try:
            self.world.build_from_ini(path)
            self.refused = False
        except Exception as e:      # the file is refused
            self.refused = True
            self.refusal = repr(e)
            self.world.build()      # an ordinary daemon, nothing is judged

    def run_ops(self):
        w = self.world
        k = w.kernel
        name = self.cfg['watchers'][0]['name']
        d = self.desig
        text = d.strip() if isinstance(d, str) else d
        if self.via == 'ini':
            # everything is text in a file; digits are a number
            cls, val = classify(str(text))
            self.probes['ini_' + cls] += 1
            if self.refused:
                if cls == 'canonical':
                    self.viol('good_designation_refused',
                              'stop_signal = %s in the configuration file '
                              'was refused: %s' % (d, self.refusal),
                              once='ini', via='ini')
                return
            if cls == 'refuse':
                self.viol('bad_designation_accepted',
                          'stop_signal = %r in the configuration file was '
                          'accepted (watcher stop_signal %r)' %
                          (d, getattr(self.watcher_obj(name), 'stop_signal',
                                      None)), once='ini',
                          kind=desig_kind(d), via='ini')
                return
        else:
            cls, val = classify(d)
            self.probes['set_' + cls] += 1
            r = w.call('set', {'name': name, 'options': {'stop_signal': d}},
                       max_dt=5.0)
            o = r.reply if isinstance(r.reply, dict) else {}
            if o.get('status') != 'ok':
                if cls == 'canonical' and isinstance(d, int):
                    self.viol('good_designation_refused',
                              'set stop_signal %r was refused: %r' %
                              (d, o.get('reason')), once='set', via='set')
                cls = 'refused'
            elif cls == 'refuse':
                self.viol('bad_designation_accepted',
                          'set stop_signal %r was accepted' % (d,),
                          once='set', kind=desig_kind(d), via='set')
                return
        workers = set(p.pid for p in k.live_by_marker(
            self.cfg['watchers'][0]['marker']))
        n0 = len(k.signals)
        w.call('stop', {'name': name}, waiting=True, max_dt=30.0)
        first = {}
        for e in k.signals[n0:]:
            if e['pid'] in workers and e['sig'] != 0 and \
                    e['pid'] not in first:
                first[e['pid']] = int(e['sig'])
        if cls == 'canonical':
            want = val
        elif cls == 'refused':
            want = int(self.cfg['watchers'][0]['opts'].get('stop_signal', 15))
        else:
            return
        self.probes['stop_signal_checked'] += 1
        bad = dict((p, s) for p, s in first.items() if s != want)
        if bad:
            self.viol('stop_signal_differs',
                      'stop_signal %r (via %s) denotes signal %s, the workers '
                      'were stopped with %s' % (d, self.via, want, bad),
                      once='stop', via=self.via)


def desig_kind(d):
    if not isinstance(d, str):
        return type(d).__name__
    up = d.upper()
    if up in NON_SIGNAL_NAMES or 'SIG' + up in NON_SIGNAL_NAMES:
        return 'non_signal_module_name'
    if any(up.startswith(n) for n in MEMBERS) or \
            any(('SIG' + up).startswith(n) for n in MEMBERS):
        return 'trailing_garbage'
    return 'other'


def gen_designation(rng):
    x = rng.random()
    name, val = rng.choice(sorted(MEMBERS.items()))
    if val in (19, 20, 21, 22):      # stopping signals complicate kill waits
        name, val = 'SIGUSR1', 10
    if x < 0.2:
        return val
    if x < 0.3:
        return str(val)
    if x < 0.55:
        s = rng.choice([name, name[3:]])
        return rng.choice([s, s.lower(), s.title(), s.swapcase()])
    if x < 0.6:
        return rng.choice(['SIGRTMIN+1', 'rtmin+2', 'SIGRTMIN+0'])
    if x < 0.85:       # near misses: must be refused
        base = rng.choice([name, name[3:], name.lower()])
        return rng.choice([base + '!!', base + ' FOO', base + ';x',
                           'x' + base, base + '+', 'SIG', '', base + 'X',
                           'SIG_IGN', 'SIG_DFL', 'SIG_BLOCK', 'sig_ign',
                           'ITIMER_REAL', 'NSIG', '-TERM', 'TE RM'])
    return rng.choice([0, 64, 65, 99, 1000, -1, 1.5, True, None, ' 15',
                       'term ', '+15', '15.0'])


class C18(Prop):
    id = 'C18'
    level = 'exploration'
    rule = ('one case = 2-3 watchers whose workers fork children and '
            'grandchildren + a sequence of signal / kill requests with pid, '
            'childpid, children, recursive drawn from own workers, other '
            'watchers\' workers, foreign pids (0, 1, the daemon itself), dead '
            'and unknown pids, and signum drawn from every signal.Signals '
            'member in all spellings, SIGRTMIN+n and near-miss strings; '
            'interleaved with worker deaths and restarts (and pids of dead '
            'workers handed out again to strangers). the kernel signal '
            'log is judged at delivery time (confinement) and per request '
            '(exact target set and signal number). non-trivial = a request '
            'with pid/children/recursive addressing or a near-miss '
            'designation; distinct = (event kind, abstract daemon state) '
            'sequence hash. 12 % of the cases put the designation where else '
            'it is accepted - stop_signal of a configuration-file section '
            '(Arbiter.load_from_config on a real ini file) or of a set '
            'request - and judge acceptance / refusal and the signal a '
            'following stop really delivers against the same reference')
    chunk = 120
    budget = {'quick': 40, 'thorough': 900}

    def gen(self, rng, tier, seed):
        if rng.random() < 0.12:
            # the same designations where else they are accepted: the
            # stop_signal of a configuration file section / of a set request
            cfg = gen.gen_base_cfg(rng, seed, nwatch=(1,), numproc=(1, 2),
                                   singleton_p=0.0, kinds=('obedient',),
                                   grace=[0.05], warmup=[0])
            via = rng.choice(['ini', 'ini', 'set'])
            d = gen_designation(rng)
            if via == 'ini':
                while not isinstance(d, (str, int)) or \
                        isinstance(d, bool) or d == '':
                    d = gen_designation(rng)
            return {'cfg': cfg, 'ops': [], 'kind': 'desig', 'via': via,
                    'desig': d}
        cfg = gen.gen_base_cfg(rng, seed, nwatch=(2, 2, 3), kids=True,
                               stop_children_p=0.4,
                               numproc=(1, 2, 3), singleton_p=0.0,
                               kinds=('obedient', 'slow', 'stubborn'),
                               grace=[0.05, 0.25, 1.0], warmup=[0, 0.05])
        for wc in cfg['watchers']:
            for m in wc['mix']:
                m.setdefault('kids', [rng.choice([0, 1, 2])])
                m.setdefault('kid', {'label': 'kid', 'kids': [rng.choice(
                    [0, 1])], 'kid': {'label': 'grandkid'}})
                m['latency'] = [rng.choice([0.0, 0.0, 0.001])]
                if rng.random() < 0.3:
                    m['reaps_children'] = False
        cfg['foreign'] = [1, 77, 4242, 4999]
        if rng.random() < 0.08:
            # two watchers whose names differ only by a letter that other
            # case mappings than lower() fold together (sharp s)
            cfg['watchers'][0]['name'] = 'maß'
            cfg['watchers'][1]['name'] = 'mass'
        nw = len(cfg['watchers'])
        ops = []
        n = rng.choice([2, 4, 6, 8]) if tier == 'quick' else \
            rng.choice([4, 8, 12, 20])
        for _ in range(n):
            x = rng.random()
            w = rng.randrange(nw)
            if x < 0.6:
                props = {'signum': gen_designation(rng)}
                y = rng.random()
                if y < 0.6:
                    props['pid'] = self.gen_pid(rng, w, nw)
                    z = rng.random()
                    if z < 0.2:
                        props['childpid'] = rng.choice(
                            [{'w': w, 'j': 0, 'child': rng.randrange(3)},
                             {'w': (w + 1) % nw, 'j': 0, 'child': 0},
                             {'w': w, 'j': 0, 'child': 0, 'deep': True},
                             {'literal': 1}, {'literal': 4242}])
                    elif z < 0.4:
                        props['children'] = True
                    elif z < 0.6:
                        props['recursive'] = True
                else:
                    z = rng.random()
                    if z < 0.25:
                        props['children'] = True
                    elif z < 0.5:
                        props['recursive'] = True
                if rng.random() < 0.15:
                    # a child (or a worker) disappears inside the request
                    d = {'op': 'die', 'w': w, 'j': rng.randrange(3),
                         'how': 'kill',
                         'place': {'calls': rng.randrange(1, 10)}}
                    if rng.random() < 0.75:
                        d['child'] = rng.randrange(2)
                    ops.append(d)
                ops.append({'op': 'req', 'cmd': 'signal', 'w': w,
                            'props': props, 'waiting': False, 'place': 'now',
                            'sync': True})
            elif x < 0.85:
                props = {}
                if rng.random() < 0.6:
                    props['pid'] = self.gen_pid(rng, w, nw)
                if rng.random() < 0.5:
                    props['signum'] = gen_designation(rng)
                if rng.random() < 0.4:
                    props['graceful_timeout'] = rng.choice([0, 0.1, 0.3])
                sc = cfg['watchers'][w]['opts'].get('stop_children')
                if rng.random() < (0.6 if sc else 0.15):
                    # a child of one of the workers disappears while the
                    # request is being carried out
                    ops.append({'op': 'die', 'w': w, 'j': rng.randrange(3),
                                'child': rng.randrange(2), 'how': 'kill',
                                'place': {'calls': rng.randrange(1, 10)}})
                ops.append({'op': 'req', 'cmd': 'kill', 'w': w,
                            'props': props,
                            'waiting': rng.random() < 0.5, 'place': 'now',
                            'sync': rng.random() < 0.5})
            elif x < 0.93:
                ops.append(gen.gen_death(rng, nw, inflight=False))
                if rng.random() < 0.5:
                    # the dead worker is waited for by a kill request (it
                    # stays in the table until the next periodic check), its
                    # pid is handed out again, and requests name it
                    wd = ops[-1]['w']
                    ops.extend([
                        {'op': 'req', 'cmd': 'kill', 'w': wd,
                         'props': {'graceful_timeout': 0.1},
                         'waiting': True, 'place': 'now', 'sync': True},
                        {'op': 'pidreuse', 'w': wd, 'j': rng.randrange(3),
                         'place': 'now'},
                        {'op': 'req', 'cmd': 'signal', 'w': wd,
                         'props': {'signum': rng.choice([10, 15, 'usr1']),
                                   'pid': {'reused': wd}},
                         'waiting': False, 'place': 'now', 'sync': True},
                        {'op': 'req', 'cmd': 'signal', 'w': wd,
                         'props': {'signum': rng.choice([10, 12, 'hup'])},
                         'waiting': False, 'place': 'now', 'sync': True}])
            else:
                ops.append({'op': 'quiet', 'checks': rng.choice([0, 1])})
        if rng.random() < 0.08:
            # a watcher is removed and its workers are left running (rm with
            # nostop): requests that go on naming it reach nobody
            wr = rng.randrange(nw)
            ops.append({'op': 'req', 'cmd': 'rm', 'w': wr,
                        'props': {'nostop': True}, 'waiting': True,
                        'place': 'now', 'sync': True, 'c18_rm': True})
            for _ in range(rng.choice([1, 2, 3])):
                cmd = rng.choice(['signal', 'signal', 'kill'])
                props = {'signum': rng.choice([15, 10, 'term', 'usr1'])}
                if rng.random() < 0.4:
                    props['pid'] = {'w': wr, 'j': rng.randrange(2)}
                ops.append({'op': 'req', 'cmd': cmd, 'w': wr, 'props': props,
                            'waiting': False, 'place': 'now', 'sync': True})
        return {'cfg': cfg, 'ops': ops}

    @staticmethod
    def gen_pid(rng, w, nw):
        x = rng.random()
        if x < 0.5:
            return {'w': w, 'j': rng.randrange(3)}
        if x < 0.65:
            return {'w': (w + 1) % nw, 'j': rng.randrange(3)}
        if x < 0.75:
            return {'w': w, 'j': 0, 'child': rng.randrange(2)}
        if x < 0.83:
            return {'w': w, 'dead': rng.randrange(3)}
        return {'literal': rng.choice([0, 1, 4242, 77, 999999, -1, 4999])}

    def run(self, case):
        if case.get('kind') == 'desig':
            ep = C18DesigEpisode(case)
            ep.run()
            return self.result(ep, nontrivial=True)
        ep = C18Episode(case)
        ep.run()
        nt = any(op['op'] == 'req' and (
            'pid' in op['props'] or op['props'].get('children') or
            op['props'].get('recursive')) for op in case['ops'])
        return self.result(ep, nontrivial=nt)


PROP = C18()
