"""C05 - the daemon never blocks; every request completes in bounded time."""
from .base import Prop
from ..lifecycle import Episode
from ..world import STATE_CHANGING
from .. import gen

BLOCK_LIMIT = 0.25       # virtual seconds a single loop step may block


ODD_ARGS = ['$(circus.env.DEPLOYMENT_ENVIRONMENT:-production)',
            '((circus.env.A_LONG_VARIABLE_NAME_X|x))',
            '$(circus.sockets.' + 'x' * 22 + '!', '$(date +%s)',
            '--opt=$(circus.wid)', '$(circus.' + 'a-b_' * 5 + 'ab )',
            '$$(circus.wid)', '((circus.wid', '$(circus.env.' + 'Q' * 22]

# CPU seconds one loop step may compute (typical: microseconds)
CPU_LIMIT = 0.5


class C05Episode(Episode):
    def setup(self):
        super().setup()
        w = self.world
        self.bounds = {}
        w.loop.after_step_hook = self.after_step
        self.reported_block = False
        self.block_stack = None
        w.sim.block_limit = BLOCK_LIMIT
        w.sim.block_hook = self.on_block

    def on_block(self, sim):
        from ..world import _circus_stack
        self.block_stack = _circus_stack()

    def after_step(self):
        s = self.world.sim
        if s.step_cpu > CPU_LIMIT and not getattr(self, '_cpu_reported', 0):
            # CPU time of this thread: one loop step computed for a long time
            # (no sleeping involved - pathological regular expressions ...)
            self._cpu_reported = 1
            self.viol('event_loop_dead',
                      'one event-loop step computed for %.1f CPU seconds '
                      '(operations in flight: %s)'
                      % (s.step_cpu, [r.cmd for r in
                                      self.world.outstanding()][:4]),
                      once='cpu', spin_in='cpu', via='computation')
            # (the episode ends here: every further spawn would compute as
            # long again)
            s.capped = 'cpu_stall'
        if s.step_blocked > BLOCK_LIMIT and not s.hung and \
                not self.reported_block:
            self.reported_block = True
            self.viol('step_blocked',
                      'one event-loop step blocked for %.3f virtual seconds '
                      '(%d sleeps) in %s' % (s.step_blocked, s.step_sleeps,
                                             ' <- '.join(
                                                 (self.block_stack or [])[:5])),
                      once='blk',
                      spin_in=(self.block_stack or [None])[0],
                      via=self.spin_site(self.block_stack or []),
                      leader_zombie=any(
                          q.leader_gone
                          for q in self.world.kernel.procs.values()))

    def stopped(self):
        s = self.world.sim
        if s.hung and not getattr(self, '_hung_reported', False):
            self._hung_reported = True
            st = s.hung['stack']
            # attribute: which request was being dispatched / which operation
            r = self.world.dispatching
            pairs = [x.cmd for x in self.world.reqs
                     if x.dispatched and x.accepted and not x.replies
                     and x.cmd in ('kill',) + STATE_CHANGING]
            self.viol('event_loop_dead',
                      'unbounded busy-wait inside one event-loop step: %s '
                      'waits for pid %s which is alive and has no pending '
                      'death (%d sleeps, %.1f s blocked); operations in '
                      'flight: %s' % (' <- '.join(st[:5]), s.hung['pid'],
                                      s.hung['sleeps'], s.hung['blocked'],
                                      pairs),
                      once='hung', spin_in=st[0] if st else None,
                      via=self.spin_site(st),
                      leader_zombie=bool(getattr(
                          self.world.kernel.procs.get(s.hung['pid']),
                          'leader_gone', False)))
        return super().stopped()

    @staticmethod
    def spin_site(st):
        names = [n for n in st[1:]
                 if n not in ('_log', 'wrapper', 'run', '__init__')]
        if not names:
            return None
        if names[0] == 'reap_processes' and len(names) > 1:
            return 'reap_processes<-' + names[1]
        return names[0]

    def bound(self, r):
        """configuration-derived completion bound for a waiting request"""
        a = self.world.arbiter
        if r.cmd in ('incr', 'decr') and r.wname:
            # surplus workers are terminated together - one grace period
            # (one more for a max_age round before it, and for each kill
            # request that may already be terminating one of them) -, missing
            # ones are spawned one warm-up apart
            for wc in self.cfg['watchers']:
                if wc['name'].lower() != r.wname.lower():
                    continue
                o = wc['opts']
                np_ = max(o.get('numprocesses', 1), 5) + 3
                g = max(o.get('graceful_timeout', 30.0), 1.0)
                rounds = 1 + (1 if o.get('max_age') else 0)
                for q in self.world.reqs:
                    if q.cmd == 'kill' and q.dispatched and \
                            q.disp_t is not None and \
                            q.disp_t <= (r.disp_t or 0) + g:
                        gk = (q.props or {}).get('graceful_timeout')
                        if not isinstance(gk, (int, float)) or gk != gk:
                            gk = g
                        if q.disp_t + max(gk, g) + 1.0 >= (r.disp_t or 0):
                            rounds += 1
                # (the periodic check does not delay an accepted request:
                # it either holds the slot - then the request is refused -
                # or waits for it)
                gt = max(float(o.get('graceful_timeout', 30.0)), 0.0)
                return 0.6 + rounds * (gt + 0.25) + \
                    (np_ + 1) * o.get('warmup_delay', 0)
        tot = 1.0
        n = 0
        for wc in self.cfg['watchers']:
            o = wc['opts']
            np_ = max(o.get('numprocesses', 1), 5) + 3
            g = max(o.get('graceful_timeout', 30.0), 1.0)
            gk = (r.props or {}).get('graceful_timeout')
            if isinstance(gk, (int, float)):
                g = max(g, gk)
            tot += (np_ + 2) * (g + 0.1) + (np_ + 1) * o.get('warmup_delay', 0)
            n += 1
        tot += self.cfg.get('warmup_delay', 0) * (n + 1)
        # a request refused-then-retried is not modelled: bound counts from
        # the dispatch of the accepted request
        return tot + 2 * self.cfg.get('check_delay', 1.0)

    def op_req(self, i, op):
        super().op_req(i, op)

    def judge_requests(self, at_end):
        w = self.world
        now = w.sim.now
        for r in w.reqs:
            if r.meta.get('judged'):
                continue
            if not r.dispatched or r.dispatched == 'lost':
                continue
            if r.cmd in gen.READ_ONLY_CMDS and r.cmd != 'dstats' and \
                    r.payload and not r.cast:
                r.meta['judged'] = True
                self.probes['readonly_checked'] += 1
                if r.excl_before is not None or w.outstanding():
                    self.probes['readonly_while_operation_in_flight'] += 1
                if not r.sync_replies:
                    self.viol('readonly_not_answered_at_once',
                              'read-only request %s got no reply when its '
                              'dispatch returned (slot held by %r)'
                              % (r.cmd, r.excl_before), once=r.idx,
                              cmd=r.cmd)
                continue
            if r.waiting and r.accepted and not r.cast and \
                    r.cmd in STATE_CHANGING + ('kill',):
                b = self.bound(r)
                if r.replies:
                    r.meta['judged'] = True
                    self.probes['bounded_completion_checked'] += 1
                    dt = r.replies[0][1] - r.disp_t
                    if dt > b:
                        self.viol('completion_too_late',
                                  'accepted %s answered after %.2f s, bound '
                                  '%.2f s' % (r.cmd, dt, b), once=r.idx,
                                  cmd=r.cmd)
                elif now - r.disp_t > b and not w.daemon_gone():
                    r.meta['judged'] = True
                    self.viol('request_never_completed',
                              'accepted waiting %s (dispatched at +%.2f) has '
                              'no reply after %.2f s (bound %.2f s); slot=%r'
                              % (r.cmd, r.disp_t - 10000.0, now - r.disp_t, b,
                                 w.arbiter._exclusive_running_command),
                              once=r.idx, cmd=r.cmd)

    def quiet_point(self):
        super().quiet_point()
        self.judge_requests(False)

    def finish(self):
        w = self.world
        if not w.daemon_gone():
            w.kernel.fault_stop()
            # give every outstanding request its bound
            mb = max([self.bound(r) for r in w.outstanding()] + [0])
            ok = w.settle(extra_checks=2, max_dt=mb + 60.0)
            if self.stopped():
                return
            self.judge_requests(True)
            if ok and not w.daemon_gone():
                self.quiet_points += 1
            return
        w.run(None, max_dt=30.0)
        self.stopped()


class C05(Prop):
    id = 'C05'
    level = 'exploration'
    rule = ('one case = one seeded daemon life emphasising overlaps: '
            'non-exclusive kill/signal requests overlapping exclusive ones '
            '(stop, restart, reload, incr, decr, set, start), stubborn / slow '
            '/ self-exiting workers, deaths racing the operations, exec '
            'failures, read-only requests delivered at random steps while '
            'operations are in flight. checked: virtual time blocked inside '
            'one loop step (patched time.sleep) <= 0.25 s and no unbounded '
            'spin, read-only requests answered when their dispatch returns, '
            'accepted waiting requests answered within a configuration-'
            'derived bound. non-trivial = a fault/request fired while an '
            'operation was in flight; distinct = (event kind, abstract daemon '
            'state) sequence hash')
    chunk = 120
    REQS = ['kill', 'signal', 'stop', 'restart', 'reload', 'incr', 'decr',
            'set', 'start', 'status', 'list', 'numprocesses', 'options',
            'stats', 'numwatchers', 'get', 'globaloptions', 'listsockets']
    WEIGHTS = [5, 2, 4, 3, 4, 2, 2, 2, 3, 1, 1, 1, 1, 1, 0.5, 0.5, 0.5, 0.5]
    SECOND = ['stop', 'restart', 'reload', 'start', 'kill', 'status', 'list',
              'numprocesses', 'options', 'stats', 'decr', 'incr']

    def gen_flood(self, rng, tier, seed):
        """workers whose output is captured and whose descendants keep the
        inherited pipe full while the daemon stops / reaps the worker (the
        stream harness of C17): draining a pipe must not stall the loop"""
        from . import c17
        for _ in range(50):
            case = c17.PROP.gen(rng, tier, seed)
            if any(pl.get('helper') for wc in case['cfg']['watchers']
                   for pl in wc.get('plans', [])):
                break
        else:
            wc = case['cfg']['watchers'][0]
            wc['plans'][0]['helper'] = {'ch': 'stdout', 'at': 0.05,
                                        'life': 1.5}
            case['cfg']['buffer'] = max(case['cfg']['buffer'], 1024)
            case['cfg']['flush_read_bound'] = 3000
        case['kind'] = 'flood'
        return case

    def gen(self, rng, tier, seed):
        if rng.random() < 0.03:
            return self.gen_flood(rng, tier, seed)
        cfg = gen.gen_base_cfg(rng, seed, respawn=rng.choice([True, True,
                                                              False]),
                               # workers with children (stats walks them)
                               kids=rng.random() < 0.17,
                               kinds=('obedient', 'slow', 'stubborn',
                                      'selfexit', 'selective'))
        if rng.random() < 0.2:
            # command lines with text that looks like a variable reference
            # but is none (shell defaults, typos): formatting them is part of
            # every spawn and runs on the loop
            for wc in cfg['watchers']:
                if rng.random() < 0.6:
                    wc['cmd'] = 'worker --marker=%s %s' % (
                        wc['marker'], ' '.join(rng.sample(ODD_ARGS,
                                                          rng.choice([1, 2]))))
        if rng.random() < 0.25:
            cfg['exec_fail'] = {str(rng.randrange(1, 12)): rng.choice(
                [2, 13, 11, 24, 12]) for _ in range(rng.choice([1, 2, 3]))}
        n = rng.choice([2, 3, 4, 6, 8]) if tier == 'quick' else \
            rng.choice([3, 5, 8, 12, 16])
        ops = gen.gen_history(rng, cfg, n, self.REQS, self.WEIGHTS,
                              fault_p=0.7, death_p=0.2,
                              second_req_kinds=self.SECOND)
        for op in ops:
            # numbers that are no numbers: whatever the daemon makes of them,
            # it must not end up waiting, or killing, without end
            if op['op'] == 'req' and op['cmd'] == 'kill' and \
                    rng.random() < 0.1:
                op['props']['graceful_timeout'] = rng.choice(['@nan', '@nan',
                                                              -1, 1e-9])
            if op['op'] == 'req' and op['cmd'] in ('incr', 'decr') and \
                    rng.random() < 0.15:
                # an amount that passes validation and fails the operation
                # itself: the request is owed an answer all the same
                op['props']['nb'] = rng.choice(['x', '2', None, 1.5, [1], {},
                                                -3, 0])
                op['waiting'] = True
            if op['op'] == 'req' and op['cmd'] == 'set' and \
                    rng.random() < 0.15:
                op['props']['options'] = {
                    rng.choice(['graceful_timeout', 'warmup_delay']):
                    rng.choice(['@nan', '@nan', -1, -0.5])}
        if rng.random() < 0.08:
            # the wall clock is stepped while operations run: how long they
            # take does not depend on it
            out = []
            for op in ops:
                out.append(op)
                if op['op'] == 'req' and op['cmd'] in (
                        'stop', 'restart', 'kill', 'decr', 'reload', 'set',
                        'incr', 'start'):
                    out.append({'op': 'clockjump',
                                'delta': rng.choice([-20.0, -3.0, -3.0,
                                                     3600.0, 2.0]),
                                'place': {'dt': rng.choice(
                                    [0.01, 0.04, 0.12, 0.3, 0.6])}})
            ops[:] = out
        if rng.random() < 0.04:
            # "retry indefinitely" (max_retry = -1, documented) and a command
            # that cannot be executed for a long time
            wc = rng.choice(cfg['watchers'])
            wc['opts']['max_retry'] = -1
            cfg['exec_fail_from'] = [rng.randrange(1, 10),
                                     '--marker=%s' % wc['marker']]
        if rng.random() < 0.05:
            # a worker whose main thread exits while its other threads go
            # on: a zombie for /proc and psutil, not yet for waitpid()
            nw = len(cfg['watchers'])
            pos = rng.randrange(len(ops) + 1)
            ops.insert(pos, {'op': 'die', 'w': rng.randrange(nw),
                             'j': rng.randrange(3), 'how': 'leader',
                             'place': rng.choice(['now', {'dt': 0.3}])})
            if rng.random() < 0.5:
                # ... which end a while later
                ops.insert(pos + 1, {'op': 'die', 'w': ops[pos]['w'],
                                     'j': ops[pos]['j'], 'how': 'exit',
                                     'arg': 0, 'place': {'dt': rng.choice(
                                         [0.5, 2.0, 8.0])}})
        if rng.random() < 0.15:
            gen.add_on_demand(rng, cfg, ops)
        if rng.random() < 0.3:
            # hooks that veto, fail or raise around signals, stops and reaps:
            # whatever they answer, the loop must stay alive
            for wc in cfg['watchers']:
                if rng.random() < 0.7:
                    wc['hooks'] = gen.gen_hooks(
                        rng, names=('before_signal', 'after_signal',
                                    'before_stop', 'after_stop',
                                    'before_reap', 'after_reap',
                                    'before_spawn', 'after_spawn'),
                        p=0.4, bad_p=0.5)
        return {'cfg': cfg, 'ops': ops}

    def run(self, case):
        if case.get('kind') == 'flood':
            from . import c17
            ep = c17.C17Episode(case)
            ep.run()
            keep = []
            for v in ep.violations:
                if v.oracle == 'flush_never_ends':
                    v.oracle = 'event_loop_dead'
                    keep.append(v)
            # everything else about output delivery is C17's business
            ep.violations = keep
            if ep.aborted == 'daemon_hung':
                ep.aborted = None
            return self.result(ep, nontrivial=bool(
                ep.fired.get('helper_floods_pipe')))
        ep = C05Episode(case)
        ep.run()
        if ep.aborted == 'daemon_hung':
            ep.aborted = None        # reported as a violation here
        return self.result(ep)


PROP = C05()
