"""C15 - the watcher directory stays coherent; names unique ignoring case."""
import os

from .base import Prop
from ..lifecycle import Episode, name_variant
from ..world import World
from .. import ini
from .. import gen

POOL = ['web', 'Web', 'WEB', 'w b', '', 'ünï', 'a.b', 'x*', 'api', 'Api',
        # letters whose lower() and casefold() differ (sharp s, long s)
        'Straße', 'ſide']
# names that can be requested but not written into a configuration file
# (a lone surrogate: valid JSON, no valid UTF-8)
REQ_ONLY = ['\ud800x', ' web', 'api ', '\tWeb']


def conflict(o):
    """the request was refused because another exclusive command was still
    in progress (nothing is done then)"""
    return isinstance(o, dict) and o.get('status') == 'error' and \
        'arbiter is already running' in str(o.get('reason'))


def marker_of(name):
    return 'mk_' + ''.join(ch if ch.isalnum() else '_%x_' % ord(ch)
                           for ch in name.lower())


class C15Episode(Episode):
    def setup(self):
        self.world = World(self.cfg)
        d = self.world.scratch_dir()
        self.ini_path = os.path.join(d, 'circus.ini')
        self.write_ini(self.cfg['file'])
        self.world.build_from_ini(self.ini_path)
        self.clients = []
        self.lsocks = []
        self.pending_conn = False
        self.accept_seq = -1
        self.ondemand_markers = set()
        if self.cfg.get('ondemand'):
            # one watcher of the file is started by a socket event, outside
            # the command lock
            self.lsocks = [self.world.arbiter.sockets['ondemand']]
            self.ondemand_markers = set(
                marker_of(w['name']) for w in self.cfg['file'] if w.get('od'))
            self.world.kernel.on_spawn = self.accept_for
        # reference model: lower name -> {'name', 'nostop'}
        self.model = dict((w['name'].lower(), {'name': w['name']})
                          for w in self.cfg['file'])
        self.nostop_markers = set()
        self.orphans = set()      # workers left alive by rm nostop

    def write_ini(self, watchers):
        ws = []
        for w in watchers:
            ws.append({'name': w['name'],
                       'cmd': 'worker --marker=%s' % marker_of(w['name']),
                       'numprocesses': w.get('np', 1),
                       'graceful_timeout': w.get('g', 0.05)})
            if w.get('od'):
                ws[-1].update({'on_demand': True, 'use_sockets': True,
                               'warmup_delay': 1})
        socks = []
        if self.cfg.get('ondemand'):
            socks = [{'name': 'ondemand', 'path': os.path.join(
                os.path.dirname(self.ini_path), 'od.sock')}]
        with open(self.ini_path, 'w') as f:
            f.write(ini.render(circus={'check_delay': self.cfg.get(
                'check_delay', 1.0)}, watchers=ws, sockets=socks))

    # ------------------------------------------------------------------ ops
    def op_c15(self, i, op):
        w = self.world
        kind = op['kind']
        before = dict(self.model)
        if kind == 'add':
            props = {'name': op['name'],
                     'cmd': 'worker --marker=%s' % marker_of(op['name']),
                     'start': bool(op.get('start'))}
            if op.get('options'):
                props['options'] = op['options']
            r = w.call('add', props, waiting=bool(op.get('waiting')))
            self.fired['req:add'] += 1
            o = r.reply
            ok = isinstance(o, dict) and o.get('status') == 'ok'
            dup = op['name'].lower() in self.model
            if ok:
                if dup:
                    self.viol('duplicate_name_accepted',
                              'add %r answered ok although %r exists'
                              % (op['name'], self.model[op['name'].lower()]
                                 ['name']), once=i)
                self.model[op['name'].lower()] = {'name': op['name']}
                self.expect_added = op['name']
            else:
                self.expect_added = None
            self.settle_and_check(i, 'add %r -> %s' % (
                op['name'], o.get('status') if isinstance(o, dict) else o),
                add_ok=ok, add_name=op['name'], before=before)
        elif kind == 'rm':
            nm = name_variant(op['name'], op.get('case'))
            props = {'name': nm}
            if op.get('nostop'):
                props['nostop'] = True
            r = w.call('rm', props, waiting=not op.get('nowait'))
            self.fired['req:rm'] += 1
            o = r.reply
            ok = isinstance(o, dict) and o.get('status') == 'ok'
            key = nm.lower()
            if op.get('nowait'):
                # answered at once; the stop of its workers is still going on
                self.mid_check(i, 'rm %r (in progress)' % nm)
                w.settle(extra_checks=0)
            if ok:
                if key not in self.model:
                    self.viol('rm_unknown_accepted', 'rm %r answered ok, no '
                              'such watcher' % nm, once=i)
                ent = self.model.pop(key, None)
                if op.get('nostop') and ent:
                    self.nostop_markers.add(marker_of(ent['name']))
                    self.orphans.update(p.pid for p in w.kernel.live_by_marker(
                        marker_of(ent['name'])))
                elif ent:
                    k = w.kernel
                    live = [p.pid for p in k.live_by_marker(
                        marker_of(ent['name'])) if p.pid not in self.orphans]
                    if live:
                        self.viol('removed_watcher_workers_alive',
                                  'rm %r completed, workers %s still alive'
                                  % (nm, live), once=i)
            elif conflict(o):
                self.fired['refused_busy'] += 1
            elif key in self.model and not w.outstanding():
                self.viol('rm_refused', 'rm %r of an existing watcher '
                          'answered %r' % (nm, o), once=i)
            self.settle_and_check(i, 'rm %r' % nm)
        elif kind in ('start', 'stop'):
            nm = name_variant(op['name'], op.get('case'))
            props = {'name': nm}
            if not op.get('glob'):
                props['match'] = 'simple'
            # (the default matching is by glob pattern, against the names
            # of the watchers that exist: a plain name matches itself only)
            r = w.call(kind, props, waiting=not op.get('nowait'))
            self.fired['req:' + kind] += 1
            o = r.reply
            ok = isinstance(o, dict) and o.get('status') == 'ok'
            if conflict(o):
                self.fired['refused_busy'] += 1
            elif ok != (nm.lower() in self.model):
                self.viol('name_resolution',
                          '%s %r answered %r, directory has %s'
                          % (kind, nm, o.get('status') if isinstance(o, dict)
                             else o, sorted(self.model)), once=i)
            if op.get('nowait'):
                # answered at once: the next request arrives while the
                # workers are still being started / stopped
                self.mid_check(i, '%s %r (in progress)' % (kind, nm))
                return
            self.settle_and_check(i, '%s %r' % (kind, nm))
        elif kind == 'reloadconfig':
            self.write_ini(op['file'])
            r = w.call('reloadconfig', {}, waiting=not op.get('nowait'))
            self.fired['req:reloadconfig'] += 1
            o = r.reply
            if op.get('nowait'):
                self.mid_check(i, 'reloadconfig (in progress)')
                w.settle(extra_checks=0)
            if op.get('nowait'):
                # answered ok before anything was done: whether the reload
                # went through is not known - resynchronise from the views
                self.model = None
                self.settle_and_check(i, 'reloadconfig (not waited for)')
            elif isinstance(o, dict) and o.get('status') == 'ok':
                # the file wins for watchers it defines; watchers added by
                # request and absent from the file are removed as well
                self.model = dict((x['name'].lower(), {'name': x['name']})
                                  for x in op['file'])
                self.settle_and_check(i, 'reloadconfig')
            else:
                self.fired['reloadconfig_error'] += 1
                self.model = None      # undefined afterwards: resync
                self.settle_and_check(i, 'reloadconfig (error)')

    # -------------------------------------------------------------- oracle
    def mid_check(self, i, what):
        """the four views while an operation is still in progress: they are
        answered at once (read-only requests) and must describe the same set
        of watchers - whichever set that is at this instant"""
        if self.stopped() or self.world.daemon_gone():
            return
        for rnd in range(2):
            lst = self.ask('list', {})
            sts = self.ask('status', {})
            stats = self.ask('stats', {})
            nw = self.ask('numwatchers', {})
            lst2 = self.ask('list', {})
            try:
                v = {'list': sorted(x.lower() for x in lst['watchers']),
                     'status': sorted(x.lower() for x in sts['statuses']),
                     'stats': sorted(x.lower() for x in stats['infos'])}
                v2 = sorted(x.lower() for x in lst2['watchers'])
                num = nw['numwatchers']
            except (TypeError, KeyError):
                return
            if v2 != v['list']:
                continue          # the set changed while we were asking
            self.probes['mid_operation_checks'] += 1
            if self.world.arbiter._exclusive_running_command is not None \
                    or self.world.outstanding():
                self.probes['mid_operation_checks_in_flight'] += 1
            if not (v['list'] == v['status'] == v['stats']) or \
                    num != len(v['list']):
                self.viol('views_disagree_during_operation',
                          '%s: list %r, status %r, stats %r, numwatchers %r'
                          % (what, v['list'], v['status'], v['stats'], num),
                          once=(i, 'mid'), op=what.split()[0])
            return

    def settle_and_check(self, i, what, add_ok=None, add_name=None,
                         before=None):
        w = self.world
        ok = w.settle(extra_checks=0)
        if self.stopped() or not ok:
            return
        self.quiet_points += 1
        self.note(what.split()[0])
        lst = self.ask('list', {})
        sts = self.ask('status', {})
        stats = self.ask('stats', {})
        nw = self.ask('numwatchers', {})
        try:
            v_list = list(lst['watchers'])
            v_status = list(sts['statuses'].keys())
            v_stats = list(stats['infos'].keys())
            v_num = nw['numwatchers']
        except (TypeError, KeyError):
            self.viol('bad_view_reply', 'after %s: %r %r %r %r' %
                      (what, lst, sts, stats, nw), once=i)
            return
        low = lambda xs: sorted(x.lower() for x in xs)     # noqa: E731
        if self.model is None:
            self.model = dict((n.lower(), {'name': n}) for n in v_status)
        want = sorted(self.model)
        views = {'list': low(v_list), 'status': low(v_status),
                 'stats': low(v_stats)}
        self.probes['directory_checks'] += 1
        for vn, got in views.items():
            if len(set(got)) != len(got):
                self.viol('names_not_unique_ignoring_case',
                          'after %s: %s shows %r' % (what, vn, got), once=i)
            if got != want:
                self.viol('view_differs_from_directory',
                          'after %s: %s shows %r, expected %r' %
                          (what, vn, got, want), once=(i, vn), view=vn,
                          op=what.split()[0],
                          empty_name=('' in want) != ('' in got))
        if v_num != len(want):
            self.viol('view_differs_from_directory',
                      'after %s: numwatchers %r, expected %d' %
                      (what, v_num, len(want)), once=(i, 'num'),
                      view='numwatchers', op=what.split()[0],
                      empty_name=False)
        if add_ok is True and add_name.lower() not in views['status']:
            self.viol('add_ok_but_absent',
                      'add %r answered ok but the watcher does not exist '
                      '(status shows %r)' % (add_name, views['status']),
                      once=(i, 'add'), empty_name=(add_name == ''))
        if add_ok is False and before is not None and \
                sorted(before) != views['status']:
            self.viol('add_error_but_changed',
                      'add %r answered error but the set changed: %r -> %r'
                      % (add_name, sorted(before), views['status']),
                      once=(i, 'adde'))
        # nothing runs for a name that is in none of the views
        k = self.world.kernel
        for nm in POOL + REQ_ONLY:
            if nm.lower() in self.model:
                continue
            live = [p.pid for p in k.live_by_marker(marker_of(nm))
                    if p.pid not in self.orphans]
            if live:
                self.viol('workers_of_absent_watcher',
                          'after %s: no watcher is called %r, yet workers %s '
                          'started for that name are alive' % (what, nm, live),
                          once=(i, 'absent', nm.lower()))
        # every case variant of a name reaches the same watcher
        for key, ent in list(self.model.items())[:3]:
            nm = ent['name']
            if not nm:
                continue
            answers = []
            for variant in (nm, nm.upper(), nm.lower(), nm.swapcase()):
                if variant.lower() != nm.lower():
                    # not a pure change of letter case (the upper case of a
                    # sharp s is two other letters)
                    continue
                a = self.ask('status', {'name': variant})
                b = self.ask('numprocesses', {'name': variant})
                answers.append((a.get('status') if isinstance(a, dict)
                                else a, b.get('numprocesses')
                                if isinstance(b, dict) else b))
            self.probes['case_variants_checked'] += 1
            if len(set(answers)) != 1:
                self.viol('case_variant_differs', 'after %s: variants of %r '
                          'answer %r' % (what, nm, answers), once=(i, key))

    def final(self):
        self.settle_and_check('end', 'end')


class C15(Prop):
    id = 'C15'
    level = 'exploration'
    hashseed_sensitive = True
    rule = ('one case = a daemon loaded from a generated ini file and a '
            'sequence of add / add+start / rm / rm nostop / start / stop / '
            'reloadconfig (file rewritten from the same pool) over the name '
            'pool {web, Web, WEB, "w b", "", unicode, a.b, x*, api, Api}, '
            'requests naming watchers in random letter case. after every '
            'operation, at quiescence, list / status / stats / numwatchers '
            'are compared with each other and with a reference directory; '
            'case variants must reach the same watcher; removed names must be '
            'reusable. 40 % of the rm and reloadconfig and 30 % of the start / '
            'stop requests are not waited for (the next request then meets '
            'an operation in progress; a refusal "already running" must '
            'change nothing) and the four views are compared with each other while the '
            'operation is still in progress. non-trivial = at least one add or rm of a name that '
            'collides ignoring case, is empty, or follows a reloadconfig; '
            'distinct = (operation kind, abstract daemon state) hash')
    chunk = 100
    budget = {'quick': 40, 'thorough': 900}

    def gen_file(self, rng, maxn=3):
        names = []
        for n in rng.sample(POOL, rng.randrange(0, maxn + 1)):
            if n and n.lower() not in [x.lower() for x in names]:
                names.append(n)
        return [{'name': n, 'np': rng.choice([0, 1, 2]),
                 'g': rng.choice([0, 0.05, 0.3, 2.0])} for n in names]

    def gen(self, rng, tier, seed):
        cfg = {'seed': seed, 'check_delay': rng.choice([0.3, 1.0, 5.0]),
               'spawn_cost': 0.001,
               'step_cost': rng.choice([0.0, 0.0, 1e-4]),
               'watchers': [],
               'default_mix': [{'p': 3, 'label': 'obedient'},
                               {'p': 1, 'label': 'stubborn',
                                'ignore': 'all'}],
               'file': self.gen_file(rng)}
        ops = []
        n = rng.choice([3, 5, 8, 12]) if tier == 'quick' else \
            rng.choice([6, 12, 20, 30])
        for _ in range(n):
            x = rng.random()
            nm = rng.choice(POOL)
            if x < 0.6 and rng.random() < 0.12:
                nm = rng.choice(REQ_ONLY)
            if x < 0.35:
                ops.append({'op': 'c15', 'kind': 'add', 'name': nm,
                            'start': rng.random() < 0.5,
                            'waiting': rng.random() < 0.5,
                            'options': rng.choice([None, None,
                                                   {'numprocesses': 2},
                                                   {'graceful_timeout':
                                                    0.1}])})
            elif x < 0.6:
                ops.append({'op': 'c15', 'kind': 'rm', 'name': nm,
                            'case': rng.choice([None, 'upper', 'lower',
                                                'swap']),
                            'nostop': rng.random() < 0.25,
                            'nowait': rng.random() < 0.4})
            elif x < 0.8:
                ops.append({'op': 'c15', 'kind': rng.choice(['start',
                                                             'stop']),
                            'name': nm, 'case': rng.choice(
                                [None, 'upper', 'lower', 'swap']),
                            'nowait': rng.random() < 0.3,
                            'glob': rng.random() < 0.5})
            else:
                ops.append({'op': 'c15', 'kind': 'reloadconfig',
                            'file': self.gen_file(rng),
                            'nowait': rng.random() < 0.4})
        if cfg['file'] and rng.random() < 0.15:
            # a request that meets an operation in progress: a stop that is
            # not waited for (slow workers) and an rm right behind it
            nm = rng.choice(cfg['file'])['name']
            pos = rng.randrange(len(ops) + 1)
            ops[pos:pos] = [
                {'op': 'c15', 'kind': 'stop', 'name': nm, 'case': None,
                 'nowait': True, 'glob': rng.random() < 0.5},
                {'op': 'c15', 'kind': 'rm', 'name': nm,
                 'case': rng.choice([None, 'upper']), 'nostop': False,
                 'nowait': rng.random() < 0.7}]
        if cfg['file'] and rng.random() < 0.08:
            # an on-demand watcher whose start (begun by the periodic check
            # after a connection, outside the command lock) is still pacing
            # its spawns when it is removed
            w0 = rng.choice(cfg['file'])
            w0['od'] = True
            w0['np'] = 3
            cfg['ondemand'] = True
            ops[0:0] = [
                {'op': 'connect', 's': 0, 'place': 'now'},
                {'op': 'wait', 'kind': 'time',
                 'n': cfg['check_delay'] + rng.choice([0.2, 0.4, 1.3])},
                {'op': 'c15', 'kind': 'rm', 'name': w0['name'],
                 'case': rng.choice([None, 'upper']), 'nostop': False,
                 'nowait': False},
                {'op': 'wait', 'kind': 'time', 'n': 3.0},
                {'op': 'c15', 'kind': 'stop', 'name': 'nobody', 'case': None,
                 'nowait': False, 'glob': False}]
        return {'cfg': cfg, 'ops': ops}

    def run(self, case):
        ep = C15Episode(case)
        ep.run()
        nt = any(op.get('kind') in ('add', 'rm', 'reloadconfig')
                 for op in case['ops'])
        return self.result(ep, nontrivial=nt)


PROP = C15()
