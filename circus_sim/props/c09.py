"""C09 - published events let a subscriber reconstruct the live process set."""
from .base import Prop
from ..lifecycle import Episode
from .. import gen


class C09Episode(Episode):
    def setup(self):
        super().setup()
        w = self.world
        self.deaths = {}       # pid -> (checks_started at death, status active?, wstatus, cause)
        k = w.kernel

        def on_death(p):
            if p.orig_parent != k.getpid_value:
                return
            wt = None
            for x in w.arbiter.watchers:
                if p.pid in x.processes:
                    wt = x
                    break
            self.deaths[p.pid] = {
                'mark': w.checks_started, 'cause': p.death_cause,
                'wstatus': p.wstatus,
                'active': wt is not None and wt._status == 'active',
                'tracked': wt is not None,
                'watcher': wt.name if wt is not None else None,
                'busy': self.busy(), 'in_step': w.sim.in_step,
                # the daemon had already signalled it: its end is announced
                # by the kill event, a reap event is not promised
                'supervised': p.term_first is not None,
                'slot': w.arbiter._exclusive_running_command,
                'stack': w.kernel.sender()[:6] if w.sim.in_step else []}
            if w.sim.in_step and (p.death_cause in ('exit', 'self') or
                                  p.death_cause.startswith('ext:')):
                st = self.deaths[p.pid]['stack']
                if 'manage_watchers' in st or 'manage_processes' in st:
                    self.probes['death_inside_periodic_check'] += 1
                if 'reap_processes' in st:
                    self.probes['death_inside_arbiter_reap'] += 1
        k.on_death = on_death
        self.on_quiet.append(C09Episode.check_quiet)

    # ------------------------------------------------------------ oracles
    def per_pid_events(self):
        """-> {pid: [(index, topic_kind, obj)]} from the captured PUB socket"""
        out = {}
        for idx, (seq, t, topic, obj) in enumerate(self.world.ctx.events):
            parts = topic.split('.')
            kind = parts[-1]
            if kind in ('spawn', 'reap', 'kill') and isinstance(obj, dict):
                pid = obj.get('process_pid')
                out.setdefault(pid, []).append((idx, kind, obj, topic))
        return out

    def check_history(self):
        k = self.world.kernel
        ev = self.per_pid_events()
        worker_pids = set(p.pid for p in k.spawns)
        for pid, lst in ev.items():
            spawns = [e for e in lst if e[1] == 'spawn']
            reaps = [e for e in lst if e[1] == 'reap']
            if pid in worker_pids:
                if len(spawns) > 1:
                    self.viol('duplicate_spawn_event',
                              'pid %s announced by %d spawn events' %
                              (pid, len(spawns)), once=pid)
                if reaps and (not spawns or spawns[0][0] > reaps[0][0]):
                    self.viol('reap_before_spawn',
                              'pid %s: reap event without earlier spawn event'
                              % pid, once=pid)
            if len(reaps) > 1:
                self.viol('duplicate_reap_event',
                          'pid %s got %d reap events' % (pid, len(reaps)),
                          once=pid)
        # every worker the watcher adopted has a spawn event
        for wt in self.world.arbiter.watchers:
            for pid in wt.processes:
                if not any(e[1] == 'spawn' for e in ev.get(pid, [])):
                    self.viol('missing_spawn_event',
                              'pid %s is tracked by %s but was never announced'
                              % (pid, wt.name), once=pid)

    def removal_site(self, pid):
        for wt in self.world.arbiter.watchers:
            for (p, who) in getattr(wt.processes, 'removed', []):
                if p == pid:
                    return who
        for wt in getattr(self, 'gone_watchers', []):
            for (p, who) in getattr(wt.processes, 'removed', []):
                if p == pid:
                    return who
        return None

    def check_quiet(self):
        w = self.world
        k = w.kernel
        ev = self.per_pid_events()
        # deaths that at least one periodic check has had a chance to see
        settled = all(w.checks_done >= d['mark'] + 1
                      for d in self.deaths.values())
        self.check_history()
        if settled:
            claimed = set()
            for pid, lst in ev.items():
                last_spawn = max([e[0] for e in lst if e[1] == 'spawn'],
                                 default=None)
                if last_spawn is None:
                    continue
                later = [e for e in lst if e[1] in ('reap', 'kill')
                         and e[0] > last_spawn]
                if not later:
                    claimed.add(pid)
            me = k.getpid_value
            live = set(p.pid for p in k.procs.values()
                       if p.orig_parent == me and p.alive)
            for pid in sorted(claimed - live):
                d = self.deaths.get(pid, {})
                self.viol('event_stream_claims_dead_worker',
                          'pid %s has a spawn event and no reap/kill event but '
                          'is not alive (death cause %s, status %s)'
                          % (pid, d.get('cause'), d.get('wstatus')),
                          once=pid, removed_by=self.removal_site(pid))
            for pid in sorted(live - claimed):
                self.viol('event_stream_misses_live_worker',
                          'pid %s is alive but the event stream says it is '
                          'gone or never announced it' % pid, once=pid)
        # self-inflicted / external deaths while active -> reap with status
        for pid, d in self.deaths.items():
            if d.get('judged'):
                continue
            if not (d['cause'] in ('exit', 'self') or
                    d['cause'].startswith('ext:')):
                continue
            if d['active'] and d['supervised'] and \
                    w.checks_done >= d['mark'] + 1:
                # the daemon had signalled it before (a kill request waiting
                # out its grace period ...): no reap event is promised, but
                # one that is published must carry the real status
                d['judged'] = True
                st = d['wstatus']
                want = -(st & 0x7f) if (st & 0x7f) else (st >> 8) & 0xff
                for e in [e for e in ev.get(pid, []) if e[1] == 'reap'][:1]:
                    if e[2].get('exit_code') != want:
                        self.viol('wrong_exit_code',
                                  'worker %s (signalled by the daemon before, '
                                  'died of something else) wait status %s: '
                                  'reap event says exit_code=%r, expected %r'
                                  % (pid, st, e[2].get('exit_code'), want),
                                  removed_by=self.removal_site(pid),
                                  signalled_before=True)
                    else:
                        self.probes['reap_code_checked_signalled_before'] += 1
                continue
            if not d['active'] or d['supervised']:
                continue
            if w.checks_done < d['mark'] + 1:
                continue
            d['judged'] = True
            reaps = [e for e in ev.get(pid, []) if e[1] == 'reap']
            st = d['wstatus']
            want = -(st & 0x7f) if (st & 0x7f) else (st >> 8) & 0xff
            if not reaps:
                # did a supervisor signal land on the already dead worker
                # (race: chosen for termination, died before the signal)?
                zs = [e for e in k.signals
                      if e['pid'] == pid and e['effect'] == 'zombie']
                sd = bool(zs)
                # ... inside the very loop step in which it died (between
                # the supervisor's look at its status and the signal), or
                # had it been dead for longer when it was signalled?
                p_ = k.procs.get(pid)
                same = bool(zs) and p_ is not None and \
                    p_.death_time is not None and \
                    zs[0].get('step') == getattr(p_, 'death_step', None)
                self.viol('missing_reap_event',
                          'worker %s died by itself/externally (wait status '
                          '%s) while its watcher was active; no reap event '
                          'after a periodic check' % (pid, st), once=pid,
                          removed_by=self.removal_site(pid),
                          signalled_dead=sd, same_step=same)
            elif reaps[0][2].get('exit_code') != want:
                self.viol('wrong_exit_code',
                          'worker %s wait status %s: reap event says '
                          'exit_code=%r, expected %r' %
                          (pid, st, reaps[0][2].get('exit_code'), want),
                          removed_by=self.removal_site(pid))
            else:
                self.probes['reap_code_checked'] += 1
        # start / stop events agree with the reported status
        last = {}
        for (seq, t, topic, obj) in w.ctx.events:
            parts = topic.split('.')
            if parts[-1] in ('start', 'stop'):
                last['.'.join(parts[1:-1])] = parts[-1]
        for wt in w.arbiter.watchers:
            r = self.ask('status', {'name': wt.name})
            st = r.get('status') if isinstance(r, dict) else None
            l = last.get(wt.res_name)
            if l == 'start' and st != 'active':
                self.viol('start_event_but_not_active',
                          'last event of %s is start, status reply %r'
                          % (wt.name, st))
            elif l == 'stop' and st != 'stopped':
                self.viol('stop_event_but_not_stopped',
                          'last event of %s is stop, status reply %r'
                          % (wt.name, st))
            elif l is None and st == 'active':
                self.viol('active_without_start_event',
                          '%s reports active, no start event published'
                          % wt.name)

    def started(self):
        self.calls_before_ops = self.world.sim.ncalls

    def final(self):
        pass


class C09(Prop):
    id = 'C09'
    level = 'fault_enumeration'
    rule = ('systematic part: a worker death (every exit status 0..255 and '
            'every terminating signal in turn) injected before every kernel '
            'call of a periodic check and of incr / decr / set / reload '
            '(graceful and sequential) base scenarios. random part: '
            'one case = one seeded daemon life: swarm configuration (1-3 '
            'watchers, numprocesses 0-4, warmup/graceful/check delays, worker '
            'behaviour mix, kernel latencies, step cost) + operation list '
            '(worker exits with any status 0..255 / any terminating signal, '
            'external kills, incr/decr/set/reload/restart/stop/start/kill '
            'requests, waits) with placements at kernel-call boundaries, loop '
            'steps or virtual times. non-trivial = at least one fault fired '
            'while a request or exclusive operation was in flight; distinct = '
            'distinct hash of the sequence of (event kind, abstract daemon '
            'state) pairs')
    chunk = 150

    REQS = ['incr', 'decr', 'set', 'reload', 'restart', 'stop', 'start',
            'kill', 'list', 'status', 'signal']
    WEIGHTS = [3, 3, 3, 3, 2, 1, 2, 1, 1, 1, 2]

    def gen(self, rng, tier, seed):
        cfg = gen.gen_base_cfg(rng, seed, max_age_p=0.1,
                               stop_children_p=0.2,
                               kids=rng.random() < 0.15,
                               stop_signals=(15, 15, 15, 2, 10),
                               respawn=rng.choice([True, True, True, False]),
                               kinds=('obedient', 'slow',
                                      'stubborn', 'selfexit'))
        for wc in cfg['watchers']:
            if rng.random() < 0.12:
                # run through a shell: the exit status of the worker is the
                # exit status all the same (no 128+n reading)
                wc['opts']['shell'] = True
        n = rng.choice([2, 3, 4, 6, 8, 12]) if tier == 'quick' else \
            rng.choice([2, 3, 5, 8, 12, 20])
        ops = gen.gen_history(rng, cfg, n, self.REQS, self.WEIGHTS)
        for op in ops:
            if op['op'] == 'req' and op['cmd'] == 'signal' and \
                    rng.random() < 0.6:
                # signals a worker survives (ignored by default, or handled):
                # the worker stays, so must its place in the event stream
                op['props']['signum'] = rng.choice([28, 17, 23, 18, 'winch',
                                                    'SIGCONT'])
        return {'cfg': cfg, 'ops': ops}

    # --------------------------------------------- boundary enumeration
    enum_hard_budget = {'quick': 60, 'thorough': 3000}

    def enum_cases(self, tier, master):
        nb = 5 if tier == 'quick' else 160
        return [{'sweep_base': i, 'master': master} for i in range(nb)]

    def base_case(self, i, master):
        import random
        seed = (master * 1000003 + i) & 0xffffffffffff
        rng = random.Random('c09-sweep/%d/%d' % (master, i))
        cfg = gen.gen_base_cfg(rng, seed, nwatch=(1, 2), numproc=(1, 2, 3),
                               kinds=('obedient', 'slow'), singleton_p=0.0,
                               grace=[0, 0.05, 0.25], warmup=[0, 0.05])
        kind = rng.choice(['check', 'incr', 'decr', 'set', 'reload',
                           'reload_seq'])
        if kind == 'check':
            ops = [{'op': 'wait', 'kind': 'checks', 'n': 1}]
        else:
            props = {'incr': {'nb': 1}, 'decr': {'nb': 1},
                     'set': {'options': {'numprocesses': rng.choice(
                         [1, 2, 4])}}, 'reload': {},
                     'reload_seq': {'sequential': True}}[kind]
            ops = [{'op': 'req', 'cmd': kind.split('_')[0], 'w': 0,
                    'props': props, 'waiting': True, 'place': 'now',
                    'sync': True}]
        return {'cfg': cfg, 'ops': ops + [{'op': 'quiet', 'checks': 2}]}, \
            kind

    def run(self, case):
        if 'sweep_base' in case:
            return self.run_sweep(case)
        ep = C09Episode(case)
        ep.run()
        return self.result(ep)

    def run_sweep(self, case):
        """a worker death (every exit status / terminating signal in turn)
        before every kernel call of a periodic check / incr / decr / set /
        reload"""
        import copy
        base, kind = self.base_case(case['sweep_base'], case['master'])
        ep = C09Episode(base)
        ep.run()
        res = self.result(ep, nontrivial=False)
        res['multi'] = multi = []
        w = ep
        c0 = getattr(ep, 'calls_before_ops', None)
        K = max(4, min(80, (ep.stats.get('calls', 0) -
                            (c0 if c0 is not None else 0))))
        n = 0
        for k in range(1, K + 1):
            for wj in range(2):
                n += 1
                c = copy.deepcopy(base)
                if n % 3:
                    d = {'op': 'die', 'w': 0, 'j': wj, 'how': 'exit',
                         'arg': (n * 7 + case['sweep_base']) % 256,
                         'place': {'calls': k}}
                else:
                    d = {'op': 'die', 'w': 0, 'j': wj, 'how': 'sig',
                         'arg': gen.TERM_SIGNALS[n % len(gen.TERM_SIGNALS)],
                         'place': {'calls': k}}
                c['ops'].insert(0, d)
                e2 = C09Episode(c)
                e2.run()
                rr = self.result(e2, nontrivial=True)
                for v in rr['violations']:
                    v['case'] = c
                multi.append(rr)
        return res


PROP = C09()
