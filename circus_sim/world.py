"""One simulated daemon life: seams, construction, operation executor.

The real Arbiter / Watcher / Controller / command classes run unmodified on a
SimLoop, a SimKernel and the fake ZeroMQ objects.  Seams are module attributes
and constructor arguments only (DESIGN.md section 3); nothing in /repo is
edited.
"""
import asyncio
import gc
import json
import logging
import errno
import os
import random
import shutil
import signal
import socket
import sys
import tempfile
import uuid

REPO = os.environ.get('VERIF_REPO', '/repo')
if REPO not in sys.path[:1]:
    sys.path.insert(0, REPO)

from . import sim as simmod           # noqa: E402
from .sim import Sim, SimLoop, EPOCH  # noqa: E402
from . import kernel as kmod          # noqa: E402
from .kernel import SimKernel, Behaviour, make_popen  # noqa: E402
from . import zmqsim                  # noqa: E402
from .zmqsim import ModProxy, SimContext  # noqa: E402

simmod.install_clock()

import zmq                            # noqa: E402
from zmq.eventloop import zmqstream as _real_zmqstream  # noqa: E402
import tornado.ioloop                 # noqa: E402
import circus                         # noqa: E402

_cf = os.path.realpath(circus.__file__)
if not _cf.startswith(os.path.realpath(REPO) + os.sep):
    raise RuntimeError('circus imported from %s, not from VERIF_REPO=%s'
                       % (_cf, REPO))

import circus.util                    # noqa: E402
import circus.process                 # noqa: E402
import circus.watcher                 # noqa: E402
import circus.arbiter                 # noqa: E402
import circus.controller              # noqa: E402
import circus.sighandler              # noqa: E402
import circus.pidfile                 # noqa: E402
import circus.client                  # noqa: E402
import circus.circusd                 # noqa: E402
import circus.sockets                 # noqa: E402
from circus.exc import ConflictError  # noqa: E402

# Exceptions raised inside loop callbacks are logged and swallowed by asyncio
# / tornado.  If such an exception comes out of harness code (an oracle hook
# with a bug) it must not silently switch the oracle off: the loggers are
# kept quiet but every logged traceback is inspected, and one whose innermost
# frame of interest lies in circus_sim (other than a deliberately simulated
# system-call error) is recorded as a harness error of the running episode.
HARNESS_ERRORS = []


class ScriptedFailure(RuntimeError):
    """a failure the scenario asked for (hook raising), not a harness bug"""

_HERE = os.path.dirname(os.path.abspath(__file__))


class _Capture(logging.Handler):
    def emit(self, record):
        ei = record.exc_info
        if not ei or ei[1] is None:
            return
        exc = ei[1]
        if isinstance(exc, (OSError, zmq.ZMQError, ScriptedFailure)) or \
                getattr(exc, 'simulated', False):
            return
        tb = exc.__traceback__
        last = None
        repo = os.path.realpath(REPO)
        while tb is not None:
            fn = tb.tb_frame.f_code.co_filename
            if fn.startswith(_HERE) and tb.tb_frame.f_code.co_name in (
                    'pop', '__delitem__') and \
                    not os.environ.get('VERIF_CAPTURE_TRACKDICT'):
                # TrackDict (Watcher.processes with attribution): a KeyError
                # from it is the KeyError of circus' own dict operation
                tb = tb.tb_next
                continue
            if fn.startswith(_HERE) or fn.startswith(repo) or \
                    fn.startswith(REPO):
                last = fn
            tb = tb.tb_next
        if last is not None and last.startswith(_HERE) and \
                len(HARNESS_ERRORS) < 5:
            import traceback as _tb
            HARNESS_ERRORS.append(''.join(_tb.format_exception(*ei))[-3000:])


_capture = _Capture(level=logging.ERROR)
for _n in ('circus', 'tornado', 'tornado.application', 'tornado.general',
           'tornado.access', 'asyncio'):
    _lg = logging.getLogger(_n)
    _lg.setLevel(logging.ERROR)
    _lg.propagate = False
    _lg.handlers[:] = [_capture]

_REPO_REAL = os.path.realpath(REPO)


# ------------------------------------------------------------------ seams
class SignalRegistry(object):
    """signal.signal / getsignal for the daemon: handlers are only recorded"""

    def __init__(self):
        self.handlers = {}
        self.calls = []

    def signal(self, signum, handler):
        old = self.handlers.get(int(signum), signal.SIG_DFL)
        self.handlers[int(signum)] = handler
        self.calls.append((int(signum), handler))
        return old

    def getsignal(self, signum):
        return self.handlers.get(int(signum), signal.SIG_DFL)

    def siginterrupt(self, signum, flag):
        pass


class _Uuid(object):
    def __init__(self, n):
        self.hex = '%032x' % n


class UuidSource(object):
    def __init__(self):
        self.n = 0

    def uuid4(self):
        self.n += 1
        return _Uuid(self.n)


_REAL_KILL = os.kill
_REAL_KILLPG = os.killpg
_KILL_KERNEL = [None]


def _guard_real_kill(kernel):
    _KILL_KERNEL[0] = kernel
    if os.kill is _guarded_kill:
        return
    os.kill = _guarded_kill
    os.killpg = _guarded_killpg


def _from_code_under_test():
    f = sys._getframe(2)
    fn = f.f_code.co_filename
    return fn.startswith(_REPO_REAL) or fn.startswith(REPO)


def _guarded_kill(pid, sig):
    if _KILL_KERNEL[0] is not None and simmod.current() is not None and \
            _from_code_under_test():
        return _KILL_KERNEL[0].kill(pid, sig)
    return _REAL_KILL(pid, sig)


def _guarded_killpg(pgid, sig):
    if _KILL_KERNEL[0] is not None and simmod.current() is not None and \
            _from_code_under_test():
        raise RuntimeError('os.killpg(%r, %r) from the code under test'
                           % (pgid, sig))
    return _REAL_KILLPG(pgid, sig)


class TrackDict(dict):
    """Watcher.processes with a log of who removed which pid (attribution
    of findings only; behaviour identical to dict)."""

    def _who(self):
        f = sys._getframe(2)
        return f.f_code.co_name

    def pop(self, key, *a):
        if key in self:
            self.removed.append((key, self._who()))
        return dict.pop(self, key, *a)

    def __delitem__(self, key):
        if key in self:
            self.removed.append((key, self._who()))
        dict.__delitem__(self, key)


_orig_watcher_init = circus.watcher.Watcher.__init__


def _tracking_init(self, *a, **kw):
    _orig_watcher_init(self, *a, **kw)
    d = TrackDict(self.processes)
    d.removed = []
    self.processes = d


circus.watcher.Watcher.__init__ = _tracking_init


def _circus_stack(limit=12):
    """names of the circus functions on the current Python stack"""
    out = []
    f = sys._getframe(1)
    while f is not None and len(out) < limit:
        fn = f.f_code.co_filename
        if fn.startswith(_REPO_REAL) or fn.startswith(REPO):
            out.append(f.f_code.co_name)
        f = f.f_back
    return out


class Req(object):
    __slots__ = ('idx', 'mid', 'cmd', 'props', 'payload', 'cid', 'waiting',
                 'cast', 'sent_t', 'sent_seq', 'sent_step', 'sent_call',
                 'dispatched', 'disp_seq', 'disp_t', 'disp_step', 'replies',
                 'sync_replies', 'snap_before', 'snap_after', 'meta',
                 'spawns_before', 'signals_before', 'events_before',
                 'spawns_after', 'signals_after', 'events_after',
                 'queued_before', 'queued_after', 'excl_before', 'excl_after',
                 'wname', 'accepted', 'done_t', 'done_step', 'well_formed',
                 'env_during',
                 'disp_call_end', 'done_seq', 'done_call', 'disp_jumps',
                 'done_jumps')

    def __init__(self):
        for s in self.__slots__:
            setattr(self, s, None)
        self.replies = []
        self.sync_replies = []
        self.meta = {}

    @property
    def status(self):
        if self.replies:
            o = self.replies[0][5]
            if isinstance(o, dict):
                return o.get('status')
        return None

    @property
    def reply(self):
        return self.replies[0][5] if self.replies else None


STATE_CHANGING = ('start', 'stop', 'restart', 'reload', 'incr', 'decr', 'set',
                  'add', 'rm', 'reloadconfig', 'quit')
READ_ONLY = ('status', 'list', 'numprocesses', 'numwatchers', 'options',
             'get', 'globaloptions', 'listsockets', 'stats')


def make_behaviour(spec, rng):
    """spec (JSON-able dict) -> Behaviour, drawing from rng"""
    if spec is None:
        return Behaviour()

    def pick(v, default=None):
        if v is None:
            return default
        if isinstance(v, (list, tuple)):
            return v[rng.randrange(len(v))] if v else default
        return v

    ign = spec.get('ignore', ())
    if ign != 'all':
        ign = frozenset(int(x) for x in ign)
    life = pick(spec.get('life'))
    st = 0
    if life is not None:
        ls = pick(spec.get('life_status'), ['exit', 0])
        if ls[0] == 'exit':
            st = kmod.status_exit(int(ls[1]))
        else:
            st = kmod.status_signal(int(ls[1]))
    kids = []
    nk = pick(spec.get('kids'), 0)
    for i in range(nk or 0):
        kids.append(make_behaviour(spec.get('kid') or {}, rng))
    late = []
    for i in range(pick(spec.get('late_kids'), 0) or 0):
        late.append(make_behaviour(spec.get('kid') or {}, rng))
    return Behaviour(ignore=ign, late_children=late,
                     react_delay=float(pick(spec.get('delay'), 0.0)),
                     react_exit=pick(spec.get('exit')),
                     lifetime=life, self_status=st, children=kids,
                     latency=float(pick(spec.get('latency'), 0.0)),
                     orphan_exit=bool(spec.get('orphan_exit', False)),
                     writer=spec.get('writer'),
                     label=spec.get('label', 'obedient'),
                     reaps_children=bool(spec.get('reaps_children', True)))


IMMORTAL = {'label': 'settled', 'delay': [0.0]}


class World(object):
    """cfg keys (all JSON-able):
       seed, check_delay, warmup_delay, step_cost, spawn_cost, watchers[...],
       exec_fail {n: errno}, transport {...}, max_steps, max_calls, max_vtime
       watcher entry: name, marker, opts {...Watcher kwargs...}, mix [...],
                      hooks {name: {'script': [...], 'ignore': bool}}
    """

    def __init__(self, cfg):
        self.cfg = cfg
        seed = cfg.get('seed', 0)
        self.sim = Sim(seed, step_cost=cfg.get('step_cost', 0.0),
                       max_steps=cfg.get('max_steps', 20000),
                       max_calls=cfg.get('max_calls', 20000),
                       max_vtime=cfg.get('max_vtime', 7200.0))
        self.sim.log_enabled = cfg.get('log', True)
        self.rng = random.Random('%s/world' % seed)
        self.loop = SimLoop(self.sim)
        self.kernel = SimKernel(
            self.sim, behaviour_for=self._behaviour_for,
            spawn_cost=cfg.get('spawn_cost', 0.001),
            exec_fail_plan={int(k): v for k, v in
                            (cfg.get('exec_fail') or {}).items()},
            want_fdtable=cfg.get('want_fdtable', False))
        if cfg.get('exec_fail_from'):
            self.kernel.exec_fail_from = tuple(cfg['exec_fail_from'])
        self.kernel.signal_fail_plan = dict(
            (int(k), v) for k, v in (cfg.get('signal_fail') or {}).items())
        self.kernel.sender = _circus_stack
        self.ctx = SimContext(self.sim, self.loop)
        self.ctx.pump = self._pump
        self.ctx.on_reply = self._on_reply
        self.ctx.around_dispatch = self._around_dispatch
        tr = cfg.get('transport')
        if tr:
            self.ctx.transport = zmqsim.Transport(
                self.ctx, rng=random.Random('%s/transport' % seed),
                latency=tuple(tr.get('latency', (0.0, 0.0))),
                drop=tr.get('drop', 0.0), dup=tr.get('dup', 0.0))
        self.sigreg = SignalRegistry()
        self.uuid = UuidSource()
        self.arbiter = None
        self.reqs = []
        self.by_mid = {}
        self.dispatching = None
        self.checks_started = 0
        self.checks_done = 0
        self.checks_refused = 0
        self.mix = {}              # marker -> behaviour mix
        self.spawn_idx = {}        # marker -> count
        self.hook_calls = []       # (seq, t, watcher, hook, outcome, kwargs)
        self.hook_observer = None      # callable(wname, hook, outcome, kwargs)
        from . import hookmods as _hm

        def _rec(wname, hook_name, out, kwargs):
            kw = dict((k, v) for k, v in kwargs.items()
                      if isinstance(v, (int, float, str, type(None))))
            seq = self.sim.rec('hook', wname, hook_name, out)
            self.hook_calls.append((seq, self.sim.now, wname, hook_name, out,
                                    kw))
        _hm.RECORDER = _rec
        self.hook_scripts = {}
        self.stream_fail = bool(cfg.get('stream_fail'))
        # workers that write all the time: whenever the daemon looks whether
        # their pipe is readable (the flush before a pipe is closed), there
        # is something in it
        self.chatty_markers = set(cfg.get('chatty_markers') or ())
        self._chatty_step = {}
        self.snapshot_fn = None    # used around dispatch (C10/C11)
        self.reply_hooks = []      # callbacks(req, entry) on a matched reply
        self.dispatch_hooks = []   # callbacks(req) when a dispatch returned
        self.scratch = None
        self.start_future = None
        self.closed = False
        self.stats = {}
        self.notes = []
        self.sim.spin_hook = self._spin_hook
        self._installed = False
        self.install()

    # -------------------------------------------------------------- seams
    def install(self):
        simmod._CUR[0] = self.sim
        asyncio.set_event_loop(self.loop)
        k = self.kernel
        circus.process.Popen = make_popen(k)
        def _no_killpg(*a):
            raise RuntimeError('os.killpg from the code under test: %r' % (a,))
        circus.process.os = ModProxy(os, waitid=k.waitid, kill=k.kill,
                                     waitpid=k.waitpid, killpg=_no_killpg,
                                     getpid=lambda: k.getpid_value)
        osp = ModProxy(os, waitpid=k.waitpid, kill=k.kill, killpg=_no_killpg,
                       getpid=lambda: k.getpid_value)
        # whatever other module of the code under test calls os.kill (a
        # change to it may): simulated pids are numbers of real processes
        # of this machine - never let a signal out
        _guard_real_kill(k)
        self.osproxy = osp
        circus.watcher.os = osp
        circus.arbiter.os = osp
        circus.pidfile.os = osp
        circus.circusd.os = osp
        def _randint(a, b):
            try:
                return self.rng.randint(a, b)
            except ValueError as e:
                # (empty range: the caller's mistake, as with random.randint)
                e.simulated = True
                raise
        circus.watcher.randint = _randint
        sigp = ModProxy(signal, signal=self.sigreg.signal,
                        getsignal=self.sigreg.getsignal,
                        siginterrupt=self.sigreg.siginterrupt)
        circus.sighandler.signal = sigp
        circus.controller.zmqstream = ModProxy(
            _real_zmqstream, ZMQStream=zmqsim.SimRouterStream)
        ctx = self.ctx

        class _Ctx(object):
            @staticmethod
            def instance():
                return ctx
        circus.arbiter.zmq = ModProxy(zmq, Context=_Ctx)
        circus.arbiter.socket = ModProxy(socket, getfqdn=lambda: 'sim.host')

        world = self
        import select as _select

        class _ChattyPoll(object):
            def __init__(self):
                self._p = _select.poll()

            def register(self, fd, mask):
                world._chatty_write(fd)
                return self._p.register(fd, mask)

            def poll(self, *a):
                return self._p.poll(*a)
        import circus.stream.redirector as _redir
        _redir.select = ModProxy(_select, poll=_ChattyPoll)

        def _no_multicast(addr, port):
            # (daemons built from a configuration file have a multicast
            # discovery endpoint by default: a real UDP socket on a fixed
            # port. The simulated host has no multicast route - the daemon
            # logs that discovery is disabled and goes on)
            raise OSError(101, 'Network is unreachable (simulated)')
        circus.controller.create_udp_socket = _no_multicast
        circus.arbiter._setproctitle = lambda title: None
        circus.client.zmq = ModProxy(zmq, Poller=zmqsim.SimPoller,
                                     Context=_Ctx)
        circus.client.ZMQStream = zmqsim.SimDealerStream
        circus.client.uuid = self.uuid
        circus.util._PROCS.clear()
        self._installed = True

    def close(self):
        if self.closed:
            return
        self.closed = True
        try:
            if self.arbiter is not None:
                for w in list(self.arbiter.watchers):
                    r = getattr(w, 'stream_redirector', None)
                    if r is not None:
                        try:
                            r.stop()
                        except Exception:
                            pass
                for s in list(self.arbiter.sockets.values()):
                    try:
                        s.close()
                    except Exception:
                        pass
        finally:
            self.kernel.close_all()
            try:
                self.loop.close()
            except Exception:
                pass
            asyncio.set_event_loop(None)
            simmod._CUR[0] = None
            if self.scratch:
                shutil.rmtree(self.scratch, ignore_errors=True)
            self.arbiter = None

    def _chatty_write(self, fd):
        if not self.chatty_markers:
            return
        if self._chatty_step.get(fd) == self.sim.steps:
            return          # once per loop step and pipe
        for p in self.kernel.procs.values():
            if not p.alive or p.marker not in self.chatty_markers or \
                    p.popen is None:
                continue
            for f, pe in ((p.popen.stdout, p.stdout_w),
                          (p.popen.stderr, p.stderr_w)):
                try:
                    if f is None or f.closed or f.fileno() != fd or \
                            pe is None or pe.closed:
                        continue
                    self._chatty_step[fd] = self.sim.steps
                    os.set_blocking(pe.fd, False)
                    os.write(pe.fd, b'still here\n')
                    self.sim.rec('chatty_write', p.pid)
                except (OSError, ValueError):
                    pass
                return

    def scratch_dir(self):
        if self.scratch is None:
            self.scratch = tempfile.mkdtemp(prefix='csim-')
        return self.scratch

    # ------------------------------------------------------- behaviours
    def _marker_of(self, args):
        if isinstance(args, (list, tuple)):
            for a in args:
                if isinstance(a, str) and a.startswith('--marker='):
                    return a[9:]
            for a in args:
                if isinstance(a, str) and '--marker=' in a:
                    return a.split('--marker=', 1)[1].split()[0].strip("'\"")
        elif isinstance(args, str) and '--marker=' in args:
            return args.split('--marker=', 1)[1].split()[0]
        return None

    def _behaviour_for(self, kernel, args, kw, n):
        marker = self._marker_of(args)
        idx = self.spawn_idx.get(marker, 0)
        self.spawn_idx[marker] = idx + 1
        kernel.pending_marker = marker
        if kernel.fault_stopped:
            spec = self.cfg.get('settled_beh', IMMORTAL)
            return make_behaviour(spec, random.Random(0))
        mix = self.mix.get(marker) or self.cfg.get('default_mix')
        if not mix:
            return Behaviour()
        rng = random.Random('%s/beh/%s/%d' % (self.cfg.get('seed', 0),
                                              marker, idx))
        tot = sum(m.get('p', 1) for m in mix)
        x = rng.random() * tot
        for m in mix:
            x -= m.get('p', 1)
            if x <= 0:
                return make_behaviour(m, rng)
        return make_behaviour(mix[-1], rng)

    # -------------------------------------------------------------- hooks
    def make_hook(self, wname, hook, script):
        """script: list of outcomes for successive calls ('true', 'false',
        'raise', or a python value); last one repeats."""
        calls = self.hook_calls
        sim = self.sim
        state = {'n': 0}

        world = self

        def _hook(watcher, arbiter, hook_name, **kwargs):
            i = state['n']
            state['n'] += 1
            out = script[i] if i < len(script) else script[-1]
            if world.hook_observer is not None:
                world.hook_observer(wname, hook_name, out, kwargs)
            kw = dict((k, v) for k, v in kwargs.items()
                      if isinstance(v, (int, float, str, type(None))))
            seq = sim.rec('hook', wname, hook_name, out)
            calls.append((seq, sim.now, wname, hook_name, out, kw))
            if isinstance(out, str) and out.startswith('block:'):
                # a hook that takes its time (waits for a dependency): the
                # daemon is blocked meanwhile
                sim.sleep(float(out[6:]))
                return True
            if out == 'raise':
                raise ScriptedFailure('hook %s scripted failure' % hook_name)
            if out == 'raise_bare':
                # an exception without a message (a bare assert, KeyError())
                raise ScriptedFailure()
            if out == 'true':
                return True
            if out == 'false':
                return False
            if out == 'none':
                # a hook without a return statement: no verdict is no "true"
                return None
            return out
        _hook.__name__ = 'simhook_%s' % hook
        return _hook

    # ------------------------------------------------------------- build
    def build_watchers(self):
        ws = []
        for wc in self.cfg.get('watchers', []):
            ws.append(self.make_watcher(wc))
        return ws

    def make_watcher(self, wc):
        opts = dict(wc.get('opts', {}))
        marker = wc.get('marker', wc['name'])
        self.mix[marker] = wc.get('mix')
        cmd = wc.get('cmd') or ('worker --marker=%s' % marker)
        hooks = {}
        for hname, hs in (wc.get('hooks') or {}).items():
            hooks[hname] = (self.make_hook(wc['name'], hname, hs['script']),
                            bool(hs.get('ignore', False)))
        if hooks:
            opts['hooks'] = hooks
        if wc.get('stream_objects'):
            # a stream given as an object (embedding programs do that): the
            # watcher's options then hold something JSON cannot encode
            world = self

            class _Sink(object):
                def __call__(self, data):
                    if world.stream_fail:
                        # the disk is full / the custom stream chokes
                        e = OSError(errno.ENOSPC, 'No space left on device '
                                    '(simulated)')
                        e.simulated = True
                        raise e

                def close(self):
                    pass
            opts['stdout_stream'] = {'stream': _Sink()}
        sconf = wc.get('stream_conf')
        if sconf:
            # a stream given by configuration (file name ...), as in an ini
            for ch, conf in sconf.items():
                opts['%s_stream' % ch] = dict(
                    (k, v.replace('@SCRATCH@', self.scratch_dir())
                     if isinstance(v, str) else v) for k, v in conf.items())
        streams = wc.get('streams')
        if streams:
            for ch in ('stdout', 'stderr'):
                if ch in streams:
                    opts['%s_stream' % ch] = {'stream': streams[ch]}
        w = circus.watcher.Watcher(wc['name'], cmd, **opts)
        return w

    def build(self, watchers=None, sockets=None, **arb_kw):
        cfg = self.cfg
        if watchers is None:
            watchers = self.build_watchers()
        kw = dict(check_delay=cfg.get('check_delay', 1.0),
                  warmup_delay=cfg.get('warmup_delay', 0),
                  context=self.ctx,
                  loop=tornado.ioloop.IOLoop.current(),
                  sockets=sockets)
        kw.update(arb_kw)
        a = circus.arbiter.Arbiter(watchers, cfg.get('endpoint', 'tcp://sim:5555'),
                                   cfg.get('pubsub', 'tcp://sim:5556'), **kw)
        self.adopt(a)
        return a

    def build_from_ini(self, path):
        """Arbiter.load_from_config on the simulator (zmq.Context.instance
        is the fake context through the circus.arbiter.zmq seam)"""
        a = circus.arbiter.Arbiter.load_from_config(
            path, loop=tornado.ioloop.IOLoop.current())
        self.adopt(a)
        return a

    def adopt(self, a):
        """instrument an arbiter (count periodic checks that really ran)"""
        self.arbiter = a
        orig = a.manage_watchers
        world = self

        def counted_manage_watchers():
            # counted before the call: a death inside the synchronous part
            # of this check must not count it as 'a check after the death'
            world.checks_started += 1
            try:
                f = orig()
            except ConflictError:
                world.checks_started -= 1
                world.checks_refused += 1
                raise
            world.sim.rec('check_start')

            def _done(_f):
                world.checks_done += 1
                world.sim.rec('check_done')
            f.add_done_callback(_done)
            return f
        a.manage_watchers = counted_manage_watchers

    def start(self, run=True):
        self.start_future = self.arbiter.start()
        if run:
            self.run(lambda: self.start_future.done())
        return self.start_future

    # ---------------------------------------------------------- running
    def run(self, cond=None, max_dt=None, max_steps=None):
        """run the loop until cond() (checked after each step), idle, cap,
        or the optional virtual-time / step budget is used up.
        returns True if cond held."""
        if cond is not None and cond():
            return True
        sim = self.sim
        limit_t = sim.now + max_dt if max_dt is not None else None
        limit_s = sim.steps + max_steps if max_steps is not None else None
        if limit_t is not None:
            sim.at_time(limit_t, lambda: None, 'deadline')
        hit = [False]

        def c():
            if cond is not None and cond():
                hit[0] = True
                return True
            if limit_t is not None and sim.now >= limit_t:
                return True
            if limit_s is not None and sim.steps >= limit_s:
                return True
            return False

        while True:
            self.loop.run_sim(c)
            if hit[0] or sim.capped or sim.hung or self.loop.idle:
                break
            if limit_t is not None and sim.now >= limit_t:
                break
            if limit_s is not None and sim.steps >= limit_s:
                break
            if cond is not None and cond():
                hit[0] = True
                break
        return hit[0] or (cond is not None and cond())

    def _pump(self, cond, deadline):
        """used by SimPoller: step the world until cond or virtual deadline"""
        sim = self.sim
        if deadline > sim.now:
            self.run(cond, max_dt=deadline - sim.now)
            if not cond() and sim.now < deadline and not (sim.capped or sim.hung):
                sim.advance_to(deadline)
        else:
            self.run(cond, max_steps=0)

    def periodic_handle(self):
        try:
            return self.arbiter.ctrl.caller._timeout
        except AttributeError:
            return None

    def outstanding(self):
        return [r for r in self.reqs if r.dispatched and r.accepted
                and r.waiting and not r.cast and not r.replies]

    def daemon_gone(self):
        """the controller has been stopped (quit / daemon restart)"""
        rs = self.ctx.router_stream
        return rs is not None and rs.closed_

    def quiescent(self):
        a = self.arbiter
        if a is None:
            return True
        if self.daemon_gone():
            return not self.loop._ready and not [
                h for h in self.loop._scheduled if not h._cancelled]
        if a._exclusive_running_command is not None:
            return False
        if self.loop._ready:
            return False
        per = self.periodic_handle()
        for h in self.loop._scheduled:
            if not h._cancelled and h is not per:
                return False
        if self.sim._heap:
            for e in self.sim._heap:
                if e[3] != 'deadline':
                    return False
        if self.sim._step_events or self.sim._bound_events:
            return False
        if self.loop._regorder and len(self.loop._regorder) > 1:
            # unread data in a watched pipe: the next poll will find it
            if self.loop._selector.select(0):
                return False
        for r in self.reqs:
            if not r.dispatched:
                return False
        if self.outstanding():
            return False
        return True

    def settle(self, extra_checks=0, max_dt=600.0):
        """run to a quiescent point, then `extra_checks` more periodic checks
        (that really ran) and quiescence again. -> True if reached"""
        ok = self.run(self.quiescent, max_dt=max_dt)
        if not ok:
            return False
        if extra_checks:
            target = self.checks_done + extra_checks
            ok = self.run(lambda: self.daemon_gone() or
                          (self.checks_done >= target and self.quiescent()),
                          max_dt=max_dt)
        return ok

    # ---------------------------------------------------------- requests
    def request(self, cmd, props=None, waiting=False, cast=False, mid=True,
                cid=b'cli', raw=None, meta=None, extra=None):
        """build a request record (not yet delivered)"""
        r = Req()
        r.idx = len(self.reqs)
        r.cmd = cmd
        r.props = props
        r.cid = cid
        r.cast = cast
        r.meta = meta or {}
        if raw is not None:
            r.payload = raw if isinstance(raw, bytes) else raw.encode('utf8')
            r.mid = self.rawid(raw)
            r.waiting = bool(isinstance(props, dict) and props.get('waiting'))
        else:
            msg = {'command': cmd}
            if props is not None:
                props = dict(props)
                if waiting:
                    props['waiting'] = True
                msg['properties'] = props
                r.props = props
            elif waiting:
                msg['properties'] = {'waiting': True}
                r.props = msg['properties']
            if cast:
                msg['msg_type'] = 'cast'
            if mid is True:
                r.mid = 'r%d' % r.idx
                msg['id'] = r.mid
            elif mid is not None and mid is not False:
                r.mid = mid
                msg['id'] = mid
            if extra:
                msg.update(extra)
            r.waiting = bool(r.props and r.props.get('waiting'))
            r.payload = json.dumps(msg).encode('utf8')
        self.reqs.append(r)
        if isinstance(r.mid, str):
            self.by_mid[r.mid] = r
        return r

    @staticmethod
    def rawid(raw):
        try:
            o = json.loads(raw)
        except (ValueError, UnicodeDecodeError, RecursionError):
            return None
        if isinstance(o, dict):
            i = o.get('id')
            return i if isinstance(i, str) else None
        return None

    def deliver(self, r):
        """the request's frames arrive at the ROUTER socket now (handled as
        the next loop step)"""
        r.sent_t = self.sim.now
        r.sent_step = self.sim.steps
        r.sent_call = self.sim.ncalls
        r.sent_seq = self.sim.rec('deliver', r.idx, r.payload[:200])
        if self.ctx.router_stream is None or \
                not self.ctx.router_stream.inject([r.cid, r.payload, r]):
            r.dispatched = 'lost'

    def send(self, cmd, props=None, **kw):
        r = self.request(cmd, props, **kw)
        self.deliver(r)
        return r

    def call(self, cmd, props=None, max_dt=600.0, **kw):
        """deliver and run until the reply arrived (or the budget is gone)"""
        r = self.send(cmd, props, **kw)
        if r.cast:
            self.run(lambda: r.dispatched, max_dt=max_dt)
        else:
            self.run(lambda: bool(r.replies) or r.dispatched == 'lost',
                     max_dt=max_dt)
        return r

    def _around_dispatch(self, cb, frames):
        r = frames[2] if len(frames) > 2 else None
        frames = frames[:2]
        k = self.kernel
        if r is not None:
            r.dispatched = True
            r.disp_t = self.sim.now
            r.disp_step = self.sim.steps
            r.disp_seq = self.sim.rec('dispatch', r.idx)
            r.disp_jumps = self.loop.idle_jumps
            r.spawns_before = len(k.spawns)
            r.signals_before = len(k.signals)
            r.events_before = len(self.ctx.events)
            r.excl_before = self.arbiter._exclusive_running_command
            if self.snapshot_fn is not None:
                r.snap_before = self.snapshot_fn(self)
            r.queued_before = (len(self.loop._ready),
                               len(self.loop.pending_timers()))
            r.env_during = -sum(self.sim.fired.values())
        self.dispatching = r
        n0 = len(self.ctx.replies)
        try:
            cb(frames)
        finally:
            self.dispatching = None
            if r is not None:
                r.sync_replies = self.ctx.replies[n0:]
                r.spawns_after = len(k.spawns)
                r.signals_after = len(k.signals)
                r.events_after = len(self.ctx.events)
                r.excl_after = self.arbiter._exclusive_running_command
                r.disp_call_end = self.sim.ncalls
                r.queued_after = (len(self.loop._ready),
                                  len(self.loop.pending_timers()))
                # environment events (deliveries, deaths ...) that fired at
                # kernel-call boundaries inside this dispatch
                r.env_during = (r.env_during or 0) + \
                    sum(self.sim.fired.values())
                if self.snapshot_fn is not None:
                    r.snap_after = self.snapshot_fn(self)
                # a waiting request with no synchronous reply was accepted
                if r.cast:
                    r.accepted = None
                elif r.sync_replies:
                    for ent in r.sync_replies:
                        if ent not in r.replies and ent[3] == r.cid:
                            idv = ent[5].get('id') if isinstance(ent[5], dict) \
                                else None
                            if not isinstance(idv, str) or idv == r.mid:
                                r.replies.append(ent)
                    o = r.sync_replies[0][5]
                    st = o.get('status') if isinstance(o, dict) else None
                    r.accepted = (st == 'ok')
                else:
                    r.accepted = True
                for h in self.dispatch_hooks:
                    h(r)

    def _on_reply(self, ent):
        o = ent[5]
        if isinstance(o, dict):
            mid = o.get('id')
            if isinstance(mid, str):
                r = self.by_mid.get(mid)
                if r is not None and ent[3] == r.cid:
                    r.replies.append(ent)
                    if r.done_t is None:
                        r.done_t = ent[1]
                        r.done_step = ent[2]
                        r.done_seq = ent[0]
                        r.done_call = self.sim.ncalls
                        r.done_jumps = self.loop.idle_jumps
                        for h in self.reply_hooks:
                            h(r, ent)

    # ------------------------------------------------------- daemon signals
    def daemon_signal(self, signum):
        h = self.sigreg.handlers.get(int(signum))
        self.sim.rec('daemon_signal', int(signum))
        if callable(h):
            # delivered while the loop sleeps in its poll (nothing runnable,
            # not inside a step)? then only a thread-safe wake-up gets the
            # loop going before its next timer
            lp = self.loop
            lp.asleep_signal = (not self.sim.in_step and not lp._ready)
            try:
                h(int(signum), None)
            finally:
                lp.asleep_signal = False
            return True
        return False

    # ----------------------------------------------------------- inspection
    def watcher_names(self):
        return [w.name for w in self.arbiter.watchers]

    def live_workers(self, marker):
        return sorted(p.pid for p in self.kernel.live_by_marker(marker))

    def _spin_hook(self, sim):
        """called from time.sleep() after many sleeps within one step"""
        if sim.hung:
            return
        k = self.kernel
        pid = k.waits[-1][1] if k.waits else None
        p = k.procs.get(pid) if pid is not None and pid > 0 else None
        unbounded = False
        if p is not None and p.alive and p.dying is None \
                and sim.step_sleeps > 2000:
            unbounded = True
        if sim.step_sleeps > 50000:
            unbounded = True
        if unbounded:
            sim.hung = {'pid': pid, 'stack': _circus_stack(),
                        'sleeps': sim.step_sleeps,
                        'blocked': sim.step_blocked,
                        'step': sim.steps, 't': sim.now - EPOCH}
            sim.rec('hung', pid)
            # nothing that follows is meaningful: every waitpid gives up
            k.spin_broken = True

    def digest(self):
        """SHA-256 of the event log. Numbers the real OS hands out (port of a
        socket bound to port 0, descriptor numbers, scratch paths) are masked:
        they do not influence the schedule"""
        import hashlib
        import re
        h = hashlib.sha256()
        mask = re.compile(r'"(fd|port)": \d+|csim-\w+')
        for e in self.sim.log:
            s = repr(e)
            if '"fd"' in s or '"port"' in s or 'csim-' in s:
                s = mask.sub('<os>', s)
            h.update(s.encode('utf8'))
            h.update(b'\n')
        h.update(repr((self.sim.steps, self.sim.ncalls,
                       round(self.sim.now, 9))).encode())
        return h.hexdigest()
