"""C06 - every control request gets exactly one well-formed reply bearing its
id; the client library returns only the reply that bears the call's id."""
import json
import random

from .base import Prop
from ..lifecycle import Episode
from ..world import World
from .. import gen
from .. import zmqsim

COMMANDS = ['add', 'decr', 'get', 'globaloptions', 'incr', 'ipythonshell',
            'kill', 'list', 'listen', 'listsockets', 'numprocesses',
            'numwatchers', 'options', 'reload', 'reloadconfig', 'restart',
            'rm', 'signal', 'set', 'start', 'stats', 'status', 'stop']
JUNK = [None, True, False, 0, 1, -1, 3.5, '', 'x', 'w0', [], [1], ['w0'], {},
        {'a': 1}, {'name': 'w0'}, 'ünï', 17, [[]], {'waiting': True}]
RAW = [b'', b' ', b'\n\t ', b'\xff\xfe\x00', b'{', b'{"command": "sta',
       b'nul', b'[', b'"unterminated', b'{"command": "status"}}', b'\x00',
       b'{"id": 1,}', b'\xc3\x28', b'stop', b'NaN', b'-', b'{"a": 1}{"b": 2}',
       # nesting deeper than the parser's recursion limit
       b'[' * 100000, b'{"command": "list", "properties": ' + b'[' * 50000,
       b'{"a":' * 20000 + b'1' + b'}' * 20000]
VALUES = [None, True, 0, 17, -3, 2.5, '', 'status', [], [1, 2], ['status'],
          'a string', [[]], [{}], 1e300, 'null']


def valid_props(rng, cmd, names):
    n = rng.choice(names)
    p = {'name': n}
    if cmd in ('incr', 'decr'):
        p['nb'] = rng.choice([1, 2])
    elif cmd == 'set':
        p['options'] = dict(rng.sample([('warmup_delay', 0.3),
                                        ('graceful_timeout', 0.2),
                                        ('numprocesses', 2),
                                        ('max_retry', 2)], 2))
    elif cmd == 'add':
        p = {'name': rng.choice(['newone', 'w0', 'Other']),
             'cmd': 'worker --marker=added', 'start': rng.random() < 0.5}
    elif cmd == 'signal':
        p['signum'] = rng.choice([15, 'hup', 10, 'SIGUSR2'])
    elif cmd == 'kill':
        if rng.random() < 0.5:
            p['graceful_timeout'] = rng.choice([0, 0.2])
    elif cmd == 'get':
        p['keys'] = rng.choice([['numprocesses', 'graceful_timeout'],
                                ['stdout_stream_conf'],
                                ['numprocesses', 'stdout_stream_conf'],
                                ['hooks'], ['nosuchkey']])
    elif cmd == 'reload':
        p.update(rng.choice([{}, {'sequential': True}, {'graceful': False}]))
    elif cmd in ('numwatchers', 'globaloptions', 'listsockets',
                 'ipythonshell', 'reloadconfig', 'listen'):
        p = {}
    elif cmd in ('list', 'status', 'stats', 'numprocesses') and \
            rng.random() < 0.4:
        p = {}
    return p


def gen_message(rng, names):
    """-> (raw bytes, meta) one control message of a random layer"""
    layer = rng.random()
    if layer < 0.12:
        return rng.choice(RAW), {'layer': 'bytes'}
    if layer < 0.25:
        v = rng.choice(VALUES)
        return json.dumps(v).encode('utf8'), {'layer': 'json_value'}
    cmd = rng.choice(COMMANDS)
    msg = {'command': cmd, 'id': 'm%d' % rng.randrange(10 ** 6),
           'properties': valid_props(rng, cmd, names)}
    meta = {'layer': 'command', 'cmd': cmd}
    x = rng.random()
    if x < 0.04:
        # strings JSON can carry and UTF-8 cannot: an escaped lone surrogate
        # in the id, which every reply echoes ...
        msg['id'] = 'm\ud800%d' % rng.randrange(10 ** 6)
    elif x < 0.07 and 'name' in msg['properties']:
        # ... or in a name that the error text quotes
        msg['properties']['name'] = rng.choice(['w\udc80', '\ud800', 'x\udfff*'])
    if rng.random() < 0.5:
        msg['properties']['waiting'] = True
    if rng.random() < 0.12:
        msg['msg_type'] = 'cast'
    if rng.random() < 0.2:
        msg['command'] = rng.choice([cmd.upper(), cmd.title(),
                                     cmd.swapcase()])
    if layer < 0.5:
        # envelope corruption: each field independently missing/null/wrong
        meta['layer'] = 'envelope'
        for field in ('id', 'command', 'properties', 'msg_type'):
            x = rng.random()
            if x < 0.2:
                msg.pop(field, None)
            elif x < 0.35:
                msg[field] = None
            elif x < 0.55:
                msg[field] = rng.choice(JUNK)
    elif layer < 0.8:
        # property corruption
        meta['layer'] = 'properties'
        p = msg['properties']
        for k in list(p):
            x = rng.random()
            if x < 0.15:
                p.pop(k)
            elif x < 0.4:
                p[k] = rng.choice(JUNK)
        if rng.random() < 0.3:
            p[rng.choice(['bogus', 'pid', 'nb', 'options', 'keys', 'match',
                          'signum', 'childpid', 'nostop', 'graceful_timeout',
                          'process', 'extended', 'option'])] = \
                rng.choice(JUNK)
    return json.dumps(msg).encode('utf8'), meta


def expected_id(raw):
    try:
        o = json.loads(raw)
    except (ValueError, UnicodeDecodeError, RecursionError):
        return None, False, False
    if not isinstance(o, dict):
        return None, False, False
    return o.get('id'), o.get('msg_type') == 'cast', True


class C06Daemon(Episode):
    def started(self):
        w = self.world
        names = [wc['name'] for wc in self.cfg['watchers']]
        msgs = self.case['msgs']
        for i, m in enumerate(msgs):
            if self.stopped() or w.daemon_gone():
                break
            raw = m['raw'].encode('latin1') if isinstance(m['raw'], str) \
                else m['raw']
            n0 = len(w.ctx.replies)
            kw = {}
            if m.get('cid'):
                kw['cid'] = m['cid'].encode('latin1')
            r = w.request('raw', None, raw=raw, meta={'i': i}, **kw)
            r.cmd = m.get('cmd', 'raw')
            eid, cast, is_obj = expected_id(raw)
            w.deliver(r)
            w.run(lambda: r.dispatched, max_dt=5.0)
            if m.get('gap'):
                w.run(None, max_dt=m['gap'])
            r.meta.update({'eid': eid, 'cast': cast, 'n0': n0,
                           'layer': m.get('layer')})
            self.fired['msg_' + str(m.get('layer'))] += 1
            if self.is_killer(raw):
                # quit / daemon restart: the daemon legitimately goes away
                r.meta['killer'] = True
                self.killed = True
                break
            # the daemon survived: a probe is answered at once
            if i % 3 == 2:
                pr = w.call('numwatchers', {})
                if not pr.sync_replies:
                    self.viol('daemon_dead_after_message',
                              'numwatchers probe unanswered after message '
                              '%r' % raw[:120], once='probe')
                    break
        w.kernel.fault_stop()
        w.settle(extra_checks=1, max_dt=300.0)
        if self.stopped():
            return
        self.judge()

    @staticmethod
    def is_killer(raw):
        try:
            o = json.loads(raw)
        except (ValueError, UnicodeDecodeError, RecursionError):
            return False
        if not isinstance(o, dict) or not isinstance(o.get('command'), str):
            return False
        c = o['command'].lower()
        p = o.get('properties')
        if c == 'quit':
            return True
        if c == 'restart' and (not isinstance(p, dict) or 'name' not in p):
            return True
        return False

    def judge(self):
        w = self.world
        # group every frame the ROUTER sent by message (identity = cid)
        for r in w.reqs:
            if 'eid' not in r.meta or r.meta.get('killer'):
                continue
            raw = r.payload
            eid, cast = r.meta['eid'], r.meta['cast']
            mine = [e for e in w.ctx.replies
                    if e[0] > r.sent_seq and self.owner(e) is r]
            layer = r.meta.get('layer')
            if cast:
                if mine:
                    self.viol('reply_to_cast', 'cast message %r was answered '
                              '%r' % (raw[:100], mine[0][4][:100]),
                              once=r.idx)
                continue
            if not mine and getattr(self, 'killed', False) and r.accepted \
                    and not r.sync_replies:
                # still in flight when a quit / daemon restart arrived: the
                # control socket was closed under it
                self.probes['in_flight_at_shutdown'] += 1
                continue
            if not mine:
                self.viol('no_reply',
                          'message %r (%s) got no reply' % (raw[:140], layer),
                          once=r.idx, layer=layer,
                          kind=self.classify(raw))
                continue
            if len(mine) > 1:
                self.viol('duplicate_reply', 'message %r got %d replies' %
                          (raw[:100], len(mine)), once=r.idx)
            e = mine[0]
            o = e[5]
            if e[6] != 2 or not isinstance(o, dict) or \
                    o.get('status') not in ('ok', 'error'):
                if isinstance(o, dict) and 'status' in o and \
                        r.cmd == 'status':
                    pass       # status reply carries the watcher's status
                else:
                    self.viol('malformed_reply', 'message %r answered with '
                              '%d frames: %r' % (raw[:100], e[6], e[4][:120]),
                              once=r.idx)
                    continue
            if isinstance(o, dict) and o.get('id') != eid:
                self.viol('wrong_reply_id', 'message %r (id %r) answered with '
                          'id %r' % (raw[:100], eid, o.get('id')), once=r.idx)
            self.probes['messages_judged'] += 1

    def owner(self, ent):
        """request a reply frame belongs to: replies are matched in dispatch
        order through the synchronous-reply record and the id"""
        return self._owners.get(ent[0])

    def collect_owners(self):
        w = self.world
        self._owners = {}
        pending = {}
        for r in w.reqs:
            for e in r.sync_replies:
                self._owners[e[0]] = r
        # asynchronous replies: by id among accepted waiting requests first,
        # then any earlier request with that id (a second reply); a frame
        # nobody asked for is a violation of its own
        for e in w.ctx.replies:
            if e[0] in self._owners:
                continue
            o = e[5]
            rid = o.get('id') if isinstance(o, dict) else None
            owner = None
            for r in w.reqs:
                if 'eid' in r.meta and r.meta.get('eid') == rid and \
                        r.accepted and not r.meta.get('cast') and \
                        not r.sync_replies and r.disp_seq is not None and \
                        r.disp_seq < e[0] and not r.meta.get('got_async'):
                    owner = r
                    r.meta['got_async'] = True
                    break
            if owner is None:
                for r in reversed(w.reqs):
                    if 'eid' in r.meta and r.meta.get('eid') == rid and \
                            r.disp_seq is not None and r.disp_seq < e[0]:
                        owner = r
                        break
            if owner is not None:
                self._owners[e[0]] = owner
            else:
                self.viol('unsolicited_reply', 'the daemon sent %r which '
                          'answers no message' % (e[4][:120],), once=e[0])

    @staticmethod
    def classify(raw):
        try:
            o = json.loads(raw)
        except (ValueError, UnicodeDecodeError, RecursionError):
            return 'empty_or_blank' if not raw.strip() else 'invalid_json'
        if not isinstance(o, dict):
            return 'json_non_object'
        c = o.get('command')
        if not isinstance(c, str):
            return 'command_not_a_string'
        return 'command:%s' % c.lower()

    def judge_wrap(self):
        self.collect_owners()

    def run_ops(self):
        pass

    def finish(self):
        pass


class C06DaemonEp(C06Daemon):
    def judge(self):
        self.collect_owners()
        C06Daemon.judge(self)


# ------------------------------------------------------------------ client
class C06Client(Episode):
    def started(self):
        import circus.client
        from circus.exc import CallError
        w = self.world
        c = self.case['client']
        T = c['timeout']
        w.ctx.client_lag = c.get('lag', 0.0)
        if c['kind'] == 'sync':
            cl = circus.client.CircusClient(context=w.ctx,
                                            endpoint='tcp://sim:5555',
                                            timeout=T)
            for i, call in enumerate(c['calls']):
                if self.stopped():
                    break
                self.one_sync_call(cl, call, T, CallError, i)
            cl.stop()
        else:
            cl = circus.client.AsyncCircusClient(context=w.ctx,
                                                 endpoint='tcp://sim:5555',
                                                 timeout=T)
            for i, call in enumerate(c['calls']):
                if self.stopped():
                    break
                self.one_async_call(cl, call, T, CallError, i)
            cl.stop()

    def plan_injections(self, cl, call, stale_ids):
        w = self.world
        tr = w.ctx.transport
        for inj in call.get('inject', []):
            kind = inj['kind']
            if kind == 'stale' and stale_ids:
                rid = stale_ids[inj.get('k', 0) % len(stale_ids)]
            elif kind == 'null':
                rid = None
            elif kind == 'garbage_id':
                rid = 'ffff' + 'f' * 28
            else:
                rid = 12345
            payload = json.dumps({'status': 'ok', 'id': rid, 'time': 1.0,
                                  'numprocesses': 777, 'injected': True})
            w.sim.after(inj['dt'], lambda p=payload: tr.inject_to_dealer(
                cl._id, p), 'frame')
            self.fired['injected_' + kind] += 1

    def one_sync_call(self, cl, call, T, CallError, i):
        w = self.world
        name = self.cfg['watchers'][call['w'] % len(self.cfg['watchers'])][
            'name']
        sent = []
        orig_send = cl.socket.send

        def spy(msg, *a, **kw):
            sent.append(msg)
            return orig_send(msg, *a, **kw)
        cl.socket.send = spy
        self.plan_injections(cl, call, self.stale)
        arrivals = cl.socket  # inbox arrival times tracked below
        t0 = w.sim.now
        self.last_arrival = t0
        orig_arrive = cl.socket._arrive

        self.arrivals = []
        self.arrived_msgs = []

        def arr(msg):
            self.last_arrival = w.sim.now
            self.arrivals.append(w.sim.now)
            self.arrived_msgs.append((w.sim.now, msg))
            return orig_arrive(msg)
        cl.socket._arrive = arr
        res = exc = None
        try:
            res = cl.call({'command': 'numprocesses',
                           'properties': {'name': name}})
        except CallError as e:
            exc = e
        finally:
            cl.socket.send = orig_send
            cl.socket._arrive = orig_arrive
        t1 = w.sim.now
        cid = None
        if sent:
            try:
                cid = json.loads(sent[0]).get('id')
            except ValueError:
                pass
        self.judge_call('sync', res, exc, cid, name, t0, t1, T)
        if exc is not None and cid:
            self.stale.append(cid)
        if call.get('gap'):
            w.run(None, max_dt=call['gap'])

    def one_async_call(self, cl, call, T, CallError, i):
        w = self.world
        name = self.cfg['watchers'][call['w'] % len(self.cfg['watchers'])][
            'name']
        sent = []
        orig_send = cl.socket.send

        def spy(msg, *a, **kw):
            sent.append(msg)
            return orig_send(msg, *a, **kw)
        cl.socket.send = spy
        self.plan_injections(cl, call, self.stale)
        t0 = w.sim.now
        self.last_arrival = t0
        orig_arrive = cl.socket._arrive

        self.arrivals = []
        self.arrived_msgs = []

        def arr(msg):
            self.last_arrival = w.sim.now
            self.arrivals.append(w.sim.now)
            self.arrived_msgs.append((w.sim.now, msg))
            return orig_arrive(msg)
        cl.socket._arrive = arr
        fut = cl.call({'command': 'numprocesses',
                       'properties': {'name': name}})
        w.run(lambda: fut.done(), max_dt=T * 4 + 5.0)
        cl.socket.send = orig_send
        cl.socket._arrive = orig_arrive
        t1 = w.sim.now
        cid = None
        if sent:
            try:
                cid = json.loads(sent[0]).get('id')
            except ValueError:
                pass
        if not fut.done():
            self.viol('client_call_never_returns',
                      'AsyncCircusClient.call (timeout %s) neither returned '
                      'nor reported a timeout %.2f s after the last frame '
                      'reached the client' % (T, t1 - self.last_arrival),
                      once='async_hang')
            cl.stream.on_recv(None)
            if cid:
                self.stale.append(cid)
            return
        res = exc = None
        e = fut.exception()
        if e is not None:
            if isinstance(e, CallError):
                exc = e
            else:
                self.viol('client_unexpected_exception', repr(e), once=i)
                return
        else:
            res = fut.result()
        self.judge_call('async', res, exc, cid, name, t0, t1, T)
        if exc is not None and cid:
            self.stale.append(cid)

    def judge_call(self, kind, res, exc, cid, name, t0, t1, T):
        self.probes[kind + '_calls'] += 1
        if res is not None:
            if not isinstance(res, dict) or res.get('id') != cid:
                self.viol('client_returned_foreign_reply',
                          '%s call id %r returned %r' % (kind, cid, res),
                          once=cid, client=kind)
            elif res.get('injected'):
                self.viol('client_returned_foreign_reply',
                          '%s call returned an injected reply %r' %
                          (kind, res), once=cid, client=kind)
            else:
                self.probes[kind + '_returned_own_reply'] += 1
                if res.get('status') == 'ok' and \
                        res.get('watcher_name') != name:
                    self.viol('client_reply_not_attributable',
                              'asked for %r, reply is about %r' %
                              (name, res.get('watcher_name')), once=cid)
        else:
            self.probes[kind + '_timeouts'] += 1
            if str(exc) != 'Timed out.':
                self.viol('client_wrong_error', '%s call raised %r' %
                          (kind, exc), once=cid)
            # frames reaching the socket in the very instant of the timeout
            # were not seen by the client any more (the timer fires a few
            # loop iterations before call() is seen to have returned, and a
            # frame needs a few iterations from the socket to the coroutine)
            sc = self.cfg.get('step_cost', 0.0)
            slack = 1e-9 + 12 * sc
            for (ta, m) in self.arrived_msgs:
                try:
                    r = json.loads(m)
                except ValueError:
                    continue
                if isinstance(r, dict) and r.get('id') == cid and \
                        cid is not None and not r.get('injected') and \
                        ta < t1 - slack:
                    self.viol('client_lost_own_reply',
                              '%s call reported a timeout at +%.4f s, its own '
                              'reply had reached the socket at +%.4f s'
                              % (kind, t1 - t0, ta - t0), once=cid,
                              client=kind)
            seen = [a for a in self.arrivals if a < t1 - slack]
            ref = max([t0] + seen)
            if t1 < ref + T - 1e-6:
                self.viol('client_timeout_too_early',
                          '%s call timed out %.4f s after the last frame, '
                          'timeout is %s' % (kind, t1 - ref, T), once=cid,
                          client=kind)
            if t1 > ref + T + 0.05 + self.case['client'].get('lag', 0.0):
                self.viol('client_timeout_too_late',
                          '%s call timed out %.4f s after the last frame, '
                          'timeout is %s' % (kind, t1 - ref, T), once=cid,
                          client=kind)

    def setup(self):
        super().setup()
        self.stale = []

    def run_ops(self):
        pass

    def finish(self):
        pass


class C06(Prop):
    id = 'C06'
    level = 'exploration'
    rule = ('daemon half: one case = a daemon (with hook scripts / exec '
            'failures in some) and a sequence of control messages drawn from '
            'four layers: arbitrary bytes; arbitrary JSON values; objects '
            'whose id / command / properties / msg_type are independently '
            'missing, null or ill-typed; every registered command (any letter '
            'case) with valid, corrupted and unknown properties, waiting and '
            'cast on/off. every frame the ROUTER sends is attributed to its '
            'message: exactly one 2-frame reply with the message\'s id and '
            'status ok/error, none for casts, liveness probe in between. '
            'client half: CircusClient / AsyncCircusClient calls over a '
            'transport that delays, duplicates, reorders and drops frames and '
            'injects stale / foreign / null-id replies. non-trivial = a case '
            'with a corrupted message or an active transport fault; distinct '
            '= hash of the message / call descriptors')
    chunk = 100
    budget = {'quick': 40, 'thorough': 900}

    def gen(self, rng, tier, seed):
        if rng.random() < 0.7:
            return self.gen_daemon(rng, tier, seed)
        return self.gen_client(rng, tier, seed)

    def gen_daemon(self, rng, tier, seed):
        cfg = gen.gen_base_cfg(rng, seed, nwatch=(1, 2),
                               kinds=('obedient', 'slow', 'stubborn'),
                               grace=[0, 0.05, 0.25], warmup=[0, 0.05])
        for wc in cfg['watchers']:
            if rng.random() < 0.3:
                wc['hooks'] = gen.gen_hooks(rng, bad_p=0.6)
            if rng.random() < 0.25:
                # options / get replies that cannot be serialised
                wc['stream_objects'] = True
        if rng.random() < 0.3:
            s = rng.randrange(1, 10)
            cfg['exec_fail'] = {str(s + i): 2 for i in range(rng.choice(
                [1, 3, 8]))}
        names = [wc['name'] for wc in cfg['watchers']] + ['nosuch', 'W0']
        n = rng.choice([3, 6, 10]) if tier == 'quick' else \
            rng.choice([6, 12, 25])
        msgs = []
        for _ in range(n):
            raw, meta = gen_message(rng, names)
            meta['raw'] = raw.decode('latin1')
            if rng.random() < 0.3:
                meta['gap'] = rng.choice([0.01, 0.2, 1.0])
            if rng.random() < 0.12:
                # the peer's identity frame is an opaque byte string (what
                # libzmq generates is five arbitrary bytes)
                meta['cid'] = rng.choice(['\x00\x80\xff\xfe\x01',
                                          '\xff\xfe\x80-client',
                                          '\x00k\x8bEg', '\xc3\x28'])
            msgs.append(meta)
        return {'cfg': cfg, 'ops': [], 'msgs': msgs, 'kind': 'daemon'}

    def gen_client(self, rng, tier, seed):
        cfg = gen.gen_base_cfg(rng, seed, nwatch=(2, 3),
                               kinds=('obedient',), grace=[0.05],
                               warmup=[0])
        cfg['transport'] = {
            'latency': rng.choice([(0.0, 0.0), (0.0, 0.3), (0.1, 1.5),
                                   (0.0, 3.0)]),
            'drop': rng.choice([0.0, 0.0, 0.1, 0.3]),
            'dup': rng.choice([0.0, 0.0, 0.2, 0.5])}
        T = rng.choice([0.5, 1.0, 2.0])
        calls = []
        for _ in range(rng.choice([2, 4, 6])):
            call = {'w': rng.randrange(3), 'inject': []}
            for _k in range(rng.choice([0, 0, 1, 2, 3])):
                call['inject'].append({
                    'kind': rng.choice(['stale', 'stale', 'null',
                                        'garbage_id', 'int']),
                    'k': rng.randrange(4),
                    'dt': rng.choice([0.0, 0.01, T * 0.5, T - 0.01, T,
                                      T + 0.01, T * 1.5])})
            if rng.random() < 0.3:
                call['gap'] = rng.choice([0.1, 1.0, 3.0])
            calls.append(call)
        kind = rng.choice(['sync', 'async'])
        # a caller that is scheduled late after its poll was woken: frames
        # queue up in its socket (synchronous client only)
        lag = rng.choice([0.0, 0.0, 0.0, 0.02, 0.3])
        return {'cfg': cfg, 'ops': [], 'kind': 'client',
                'client': {'kind': kind, 'timeout': T, 'calls': calls,
                           'lag': lag}}

    def run(self, case):
        if case.get('kind') == 'client':
            ep = C06Client(case)
            ep.run()
            tr = case['cfg']['transport']
            nt = tr['drop'] > 0 or tr['dup'] > 0 or tr['latency'][1] > 0 or \
                any(c['inject'] for c in case['client']['calls'])
            res = self.result(ep, nontrivial=nt)
            res['sig'] = str(hash(json.dumps(case['client'], sort_keys=True)
                                  + json.dumps(tr)))
            import hashlib
            res['sig'] = hashlib.sha1((json.dumps(case['client'],
                                                  sort_keys=True) +
                                       json.dumps(tr)).encode()).hexdigest()[:16]
            return res
        ep = C06DaemonEp(case)
        ep.run()
        nt = any(m.get('layer') != 'command' for m in case['msgs'])
        res = self.result(ep, nontrivial=nt)
        import hashlib
        res['sig'] = hashlib.sha1(json.dumps(
            [m['raw'] for m in case['msgs']]).encode()).hexdigest()[:16]
        return res


PROP = C06()
