"""selftest setup | conformance | determinism | schema | mutants"""
import json
import os
import subprocess
import sys

VERIF = os.path.dirname(os.path.dirname(os.path.abspath(__file__)))


def main(what, rest):
    if what == 'conformance':
        from . import conformance
        return conformance.run()
    if what == 'setup':
        from . import world   # noqa: F401  (asserts circus comes from VERIF_REPO)
        from . import conformance
        rc = conformance.run(verbose=False)
        print('setup ok' if rc == 0 else 'setup: conformance mismatch')
        return rc
    if what == 'determinism':
        from . import determinism
        return determinism.main(rest)
    if what == 'schema':
        return schema()
    if what == 'mutants':
        from . import mutants
        return mutants.main(rest)
    print('unknown selftest', what)
    return 2


def schema():
    code = r'''
import json, glob, sys, jsonschema
ms = json.load(open("/root/.vp/MANIFEST.schema.json"))
es = json.load(open("/root/.vp/EVIDENCE.schema.json"))
jsonschema.validate(json.load(open("%(v)s/MANIFEST.json")), ms)
n = 0
for f in sorted(glob.glob("%(v)s/evidence/*.json")):
    jsonschema.validate(json.load(open(f)), es); n += 1
print("schema ok: manifest + %%d evidence files" %% n)
''' % {'v': VERIF}
    return subprocess.call(['python3-vt', '-c', code])
