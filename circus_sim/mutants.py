"""Sensitivity self-test: a catalogue of small source mutations, each applied
to a scratch copy of the repository (mktemp, removed afterwards); the quick
check of the corresponding property, pointed at the copy through VERIF_REPO,
must report a violation, and the unmutated copy must stay clean.

usage: python -m circus_sim selftest mutants [ids or property ids ...]
"""
import os
import shutil
import subprocess
import sys
import tempfile

VERIF = os.path.dirname(os.path.dirname(os.path.abspath(__file__)))
REPO = os.environ.get('VERIF_REPO', '/repo')

W = 'circus/watcher.py'
A = 'circus/arbiter.py'
U = 'circus/util.py'
C = 'circus/controller.py'

# (id, property, file, old, new)
CATALOGUE = [
    ('C01-a', 'C01', W,
     "        if len(self.processes) < self.numprocesses and not self.is_stopping():\n            if self.respawn:",
     "        if len(self.processes) < self.numprocesses - 1 and not self.is_stopping():\n            if self.respawn:"),
    # (C01-b - surplus kill takes the newest instead of the oldest - became an
    # equivalent mutant when the repair e50fb28 made the graceful reload kill
    # the old processes it finds afterwards; it was dropped)
    ('C01-c', 'C01', W,
     "        if np < 0:\n            np = 0\n        if self.singleton and np > 1:",
     "        if self.singleton and np > 1:"),
    ('C02-a', 'C02', W,
     "        yield self.kill_processes()\n        self.reap_processes()\n\n        # stop redirectors",
     "        yield self.kill_processes()\n\n        # stop redirectors"),
    ('C02-b', 'C02', W,
     "            if waited >= graceful_timeout:\n                # On Windows",
     "            if waited >= graceful_timeout + 3600:\n                # On Windows"),
    ('C02-c', 'C02', A,
     "        if not nostop:\n            # stop the watcher\n            yield watcher._stop()",
     "        if not nostop and watcher.numprocesses > 1:\n            # stop the watcher\n            yield watcher._stop()"),
    ('C03-a', 'C03', W,
     "                yield tornado_sleep(0.1)\n                waited += 0.1\n            if waited >= graceful_timeout:",
     "                yield tornado_sleep(0.1)\n                waited += 0.2\n            if waited >= graceful_timeout:"),
    ('C03-b', 'C03', W,
     "                    self.send_signal_process(process, signal.SIGKILL,\n                                             recursive=True)",
     "                    self.send_signal_process(process, stop_signal,\n                                             recursive=True)"),
    ('C03-c', 'C03', 'circus/commands/kill.py',
     "                                        graceful_timeout=graceful_timeout)",
     "                                        graceful_timeout=None)"),
    ('C04-a', 'C04', W,
     "        # reap dead or zombie processes first (so that they get their\n        # \"reap\" event and exit status like any other dead process)\n        for process in list(self.processes.values()):\n            if process.status in (DEAD_OR_ZOMBIE, UNEXISTING):\n                self.reap_process(process.pid)\n",
     ""),
    ('C04-b', 'C04', A,
     "                    pid, status = os.waitpid(-1, os.WNOHANG)\n                    if not pid:\n                        break\n",
     "                    pid, status = os.waitpid(-1, os.WNOHANG)\n                    if not pid:\n                        break\n                    if pid not in watchers_pids:\n                        break\n"),
    ('C05-a', 'C05', W,
     "                if not process.is_alive():\n                    break\n                yield tornado_sleep(0.1)\n                waited += 0.1",
     "                if not process.is_alive():\n                    break\n                time.sleep(0.1)\n                waited += 0.1"),
    ('C05-b', 'C05', W,
     "            while process.stopping:\n                yield tornado_sleep(0.1)\n            if not process.kill_failed:\n                raise gen.Return(False)",
     "            if not process.kill_failed:\n                raise gen.Return(False)"),
    ('C06-a', 'C06', C,
     "        resp['id'] = mid\n        resp = json.dumps(resp)",
     "        resp = json.dumps(resp)"),
    ('C06-b', 'C06', C,
     "        if cast:\n            return\n\n        if cid is None:",
     "        if cid is None:"),
    ('C06-c', 'C06', 'circus/client.py',
     "            for socket in events:\n                msg = socket.recv()\n                try:\n                    res = json.loads(msg)\n                    if res.get('id') != call_id:\n                        # we got the wrong message\n                        continue\n                    return res",
     "            for socket in events:\n                msg = socket.recv()\n                try:\n                    res = json.loads(msg)\n                    return res"),
    ('C06-d', 'C06', 'circus/client.py',
     "                self.stream.stop_on_recv()\n                future.set_result(messages)",
     "                future.set_result(messages)"),
    ('C06-e', 'C06', 'circus/client.py',
     "                self.stream.stop_on_recv()\n                raise CallError(\"Timed out.\")",
     "                raise CallError(\"Timed out.\")"),
    ('C17-d', 'C17', 'circus/watcher.py',
     "            # (not before its last output has been passed on)\n            self.stream_redirector.flush_redirections(process)\n",
     ""),
    ('C17-e', 'C17', 'circus/watcher.py',
     "                self.stream_redirector.flush_redirections(process)\n                self.stream_redirector.remove_redirections(process)\n        except Exception:",
     "                self.stream_redirector.remove_redirections(process)\n        except Exception:"),
    ('C01-d', 'C01', 'circus/watcher.py',
     "                if kept:\n                    yield [self.kill_process(process) for process in kept]",
     "                if False:\n                    yield [self.kill_process(process) for process in kept]"),
    ('C04-d', 'C04', 'circus/watcher.py',
     "            if len(self.processes) >= self.numprocesses:\n                # numprocesses was lowered while we were sleeping\n                break\n",
     ""),
    ('C18-d', 'C18', 'circus/config.py',
     "                    watcher['stop_signal'] = to_signum(val)",
     "                    watcher['stop_signal'] = int(val) if val.isdigit() else getattr(signal, val.upper())"),
    ('C11-d', 'C11', 'circus/commands/set.py',
     "        self._check_options(watcher, props.get('options', {}))\n",
     ""),
    ('C05-d', 'C05', 'circus/watcher.py',
     "        if self._status != \"starting\":\n",
     "        if False:\n"),
    ('C10-d', 'C10', 'circus/arbiter.py',
     "    @synchronized(\"arbiter_reload_config\")\n    @gen.coroutine\n    def reload_from_config",
     "    @gen.coroutine\n    def reload_from_config"),
    ('C10-e', 'C10', 'circus/arbiter.py',
     "    @synchronized(\"arbiter_add_watcher\")\n    def add_watcher",
     "    def add_watcher"),
    ('C07-a', 'C07', 'circus/sockets.py',
     "        if hasattr(self, 'set_inheritable'):\n            self.set_inheritable(True)",
     "        if hasattr(self, 'set_inheritable'):\n            self.set_inheritable(False)"),
    ('C07-b', 'C07', 'circus/process.py',
     "env=self.env, close_fds=not self.use_fds,",
     "env=self.env, close_fds=True,"),
    ('C08-a', 'C08', 'circus/circusd.py',
     "            if pidfile is not None and restart is False:\n                pidfile.unlink()",
     "            if pidfile is not None and restart is False and False:\n                pidfile.unlink()"),
    ('C08-b', 'C08', 'circus/sockets.py',
     "        super(CircusSocket, self).close()\n        if self.is_unix and os.path.exists(self.path):\n            os.remove(self.path)",
     "        super(CircusSocket, self).close()"),
    ('C08-c', 'C08', 'circus/sighandler.py',
     "            self.controller.loop.call_later(0.1, self._quit)\n            return",
     "            return"),
    ('C09-a', 'C09', W,
     "                self.notify_event(\"spawn\", {\"process_pid\": process.pid,\n                                            \"time\": process.started})\n                return process.started",
     "                if len(self.processes) <= self.numprocesses:\n                    self.notify_event(\"spawn\", {\"process_pid\": process.pid,\n                                                \"time\": process.started})\n                return process.started"),
    ('C09-b', 'C09', W,
     "                exit_code = -os.WTERMSIG(status)",
     "                exit_code = os.WTERMSIG(status)"),
    ('C09-c', 'C09', W,
     "            if process.status in (DEAD_OR_ZOMBIE, UNEXISTING):\n                self.reap_process(process.pid)\n\n        if self.max_age:",
     "            if process.status in (DEAD_OR_ZOMBIE, UNEXISTING):\n                self.processes.pop(process.pid)\n\n        if self.max_age:"),
    ('C10-a', 'C10', U,
     "            finally:\n                if isinstance(resp, concurrent.Future):\n                    cb = functools.partial(_synchronized_cb, arbiter)\n                    concurrent.future_add_done_callback(resp, cb)\n                else:",
     "            finally:\n                if isinstance(resp, concurrent.Future) and name != 'watcher_restart':\n                    cb = functools.partial(_synchronized_cb, arbiter)\n                    concurrent.future_add_done_callback(resp, cb)\n                else:"),
    ('C10-b', 'C10', W,
     "    @util.synchronized(\"watcher_incr\")\n    @gen.coroutine\n    @util.debuglog\n    def incr(self, nb=1):",
     "    @gen.coroutine\n    @util.debuglog\n    def incr(self, nb=1):"),
    ('C11-a', 'C11', 'circus/commands/set.py',
     "        for key, val in options.items():\n            validate_option(key, val)",
     "        for key, val in list(options.items())[:1]:\n            validate_option(key, val)"),
    ('C11-b', 'C11', A,
     "        if name.lower() in self._watchers_names:\n            raise AlreadyExist(\"%r already exist\" % name)\n\n        if not name:\n            raise ValueError(\"command name shouldn't be empty\")\n\n        watcher = Watcher(name, cmd, **kw)",
     "        if not name:\n            raise ValueError(\"command name shouldn't be empty\")\n\n        watcher = Watcher(name, cmd, **kw)\n        if name.lower() in self._watchers_names:\n            self._watchers_names[name.lower()].warmup_delay = watcher.warmup_delay\n            raise AlreadyExist(\"%r already exist\" % name)"),
    ('C12-a', 'C12', A,
     "                w._cfg['numprocesses'] = new_watcher_cfg['numprocesses']\n",
     ""),
    ('C12-b', 'C12', A,
     "            if diff == set(['numprocesses']):",
     "            if diff == set(['numprocesses']) and False:"),
    ('C13-a', 'C13', 'circus/process.py',
     "                args = [replace_gnu_args(arg, **format_kwargs)\n                        for arg in self.args]\n            args = shlex.split(cmd, posix=not IS_WINDOWS) + args",
     "                args = [a for arg in self.args for a in shlex.split(\n                    replace_gnu_args(arg, **format_kwargs))]\n            args = shlex.split(cmd, posix=not IS_WINDOWS) + args"),
    ('C13-b', 'C13', W,
     "        used_wids = set([p.wid for p in self.processes.values()])",
     "        used_wids = set([p.wid for p in self.processes.values()\n                         if not p.stopping])"),
    ('C14-a', 'C14', W,
     "                result = hook_name in self.ignore_hook_failure",
     "                result = True"),
    ('C14-b', 'C14', W,
     "            if not is_sigkill and not hook_result:",
     "            if not hook_result:"),
    ('C15-a', 'C15', A,
     "        watcher = self._watchers_names.pop(name.lower())\n        watcher.notify_event(\"remove\", {\"time\": time.time()})\n        del self.watchers[self.watchers.index(watcher)]",
     "        watcher = self._watchers_names[name.lower()]\n        watcher.notify_event(\"remove\", {\"time\": time.time()})\n        del self.watchers[self.watchers.index(watcher)]\n        if not nostop:\n            del self._watchers_names[name.lower()]"),
    ('C15-b', 'C15', A,
     "        self._watchers_names[watcher.name.lower()] = watcher\n        watcher.notify_event(\"add\", {\"time\": time.time()})",
     "        self._watchers_names[watcher.name] = watcher\n        watcher.notify_event(\"add\", {\"time\": time.time()})"),
    ('C17-a', 'C17', 'circus/stream/redirector.py',
     "                if len(data) == 0:\n                    self.redirector.remove_fd(fd)\n                else:",
     "                if len(data) == 0:\n                    pass\n                else:"),
    ('C17-b', 'C17', W,
     "            self.stream_redirector.flush_redirections(process)\n            self.stream_redirector.remove_redirections(process)\n\n        timeout = 0.001",
     "            self.stream_redirector.flush_redirections(process)\n\n        timeout = 0.001"),
    ('C18-a', 'C18', W,
     "        is_sigkill = hasattr(signal, 'SIGKILL') and signum == signal.SIGKILL\n        if pid in self.processes:\n            process = self.processes[pid]",
     "        is_sigkill = hasattr(signal, 'SIGKILL') and signum == signal.SIGKILL\n        if pid in self.processes or (self.arbiter is not None and any(\n                pid in w.processes for w in self.arbiter.watchers)):\n            process = [w.processes[pid] for w in self.arbiter.watchers\n                       if pid in w.processes][0]"),
    ('C18-c', 'C18', 'circus/commands/sendsignal.py',
     "        try:\n            props['signum'] = to_signum(props['signum'])\n        except ValueError:\n            raise MessageError('signal invalid')",
     "        try:\n            props['signum'] = to_signum(props['signum'])\n        except ValueError:\n            props['signum'] = 15"),
    ('C18-b', 'C18', 'circus/commands/kill.py',
     "        if pid is not None:\n            processes = [p for p in processes if p.pid == pid]",
     "        if pid:\n            processes = [p for p in processes if p.pid == pid]"),
    ('C19-a', 'C19', A,
     "        return sorted(self.watchers, key=lambda a: a.priority, reverse=reverse)",
     "        return sorted(self.watchers, key=lambda a: a.priority,\n                      reverse=not reverse)"),
    ('C19-b', 'C19', W,
     "            delay = self.warmup_delay\n            if isinstance(res, float):\n                delay -= (time.time() - res)",
     "            delay = self.warmup_delay\n            if isinstance(res, float):\n                delay -= 2 * (time.time() - res) + 0.002"),
    ('C20-a', 'C20', 'circus/stream/file_stream.py',
     "            for i in range(self._backup_count - 1, 0, -1):",
     "            for i in range(self._backup_count, 0, -1):"),
    ('C20-b', 'C20', 'circus/stream/file_stream.py',
     "            dfn = self._filename + \".1\"\n            if os.path.exists(dfn):\n                os.remove(dfn)\n            os.rename(self._filename, dfn)",
     "            dfn = self._filename + \".1\"\n            if not os.path.exists(dfn):\n                os.rename(self._filename, dfn)\n            else:\n                os.remove(self._filename)"),
    # (disk fault) the reopening after a failed rollover is dropped
    ('C20-c', 'C20', 'circus/stream/file_stream.py',
     "        if self._file is None:                 # delay was set...\n            self._file = self._open()\n        if self._max_bytes > 0:",
     "        if self._max_bytes > 0:"),
    # (late caller) the synchronous client keeps only the last frame
    ('C06-f', 'C06', 'circus/client.py',
     "        self.socket.setsockopt(zmq.LINGER, 0)\n        get_connection(self.socket, endpoint, ssh_server, ssh_keyfile)\n        self._init_poller()",
     "        self.socket.setsockopt(zmq.LINGER, 0)\n        self.socket.setsockopt(zmq.CONFLATE, 1)\n        get_connection(self.socket, endpoint, ssh_server, ssh_keyfile)\n        self._init_poller()"),
    # (httpd = True) the built-in socket counts as deleted from the file
    ('C07-c', 'C07', A,
     "        current_sn = set([i.name for i in self.sockets.values()]) - ignore_sn\n",
     "        current_sn = set([i.name for i in self.sockets.values()])\n"),
    # (EPERM on SIGKILL) a waiter takes a broken-off kill for a finished one
    ('C02-d', 'C02', W,
     "            if not process.kill_failed:\n                raise gen.Return(False)\n",
     "            if True:\n                raise gen.Return(False)\n"),
    # (socket section edited) the watchers of a changed socket are not deleted
    ('C12-d', 'C12', A,
     "        deleted_wn = (current_wn - new_wn) | wn_with_changed_socket\n",
     "        deleted_wn = current_wn - new_wn - wn_with_changed_socket\n"),
]


# mutants that need a rarer conjunction than the default 12 s reach reliably
# (C05-d: an on-demand start asleep in its warm-up, overlapped by a stop -
# about one C05 quick episode in 8000)
BUDGET = {'C05-d': 75}


def run_check(prop, repo, budget):
    env = dict(os.environ)
    env['VERIF_REPO'] = repo
    tmp = tempfile.mkdtemp(prefix='mut-ev-')
    env['VERIF_EVIDENCE_DIR'] = tmp
    env['VERIF_REPLAY_DIR'] = tmp
    env['PYTHONHASHSEED'] = '0'
    try:
        p = subprocess.run([sys.executable, '-m', 'circus_sim', 'check',
                            '--property', prop, '--tier', 'quick',
                            '--budget', str(budget)],
                           cwd=VERIF, env=env, capture_output=True, text=True,
                           timeout=1200)
        oracles = sorted(set(l.split()[0].split('=')[1]
                             for l in p.stdout.splitlines()
                             if l.strip().startswith('oracle=')))
        return p.returncode, oracles, p.stdout[-600:]
    finally:
        shutil.rmtree(tmp, ignore_errors=True)


def main(rest):
    wanted = list(rest)
    budget = float(os.environ.get('VERIF_MUTANT_BUDGET', 12))
    cat = [m for m in CATALOGUE
           if not wanted or m[0] in wanted or m[1] in wanted]
    missed = []
    bad_apply = []
    base = tempfile.mkdtemp(prefix='circus-mutants-')
    try:
        for (mid, prop, path, old, new) in cat:
            d = os.path.join(base, mid)
            shutil.copytree(os.path.join(REPO, 'circus'),
                            os.path.join(d, 'circus'))
            fn = os.path.join(d, path)
            src = open(fn).read()
            if src.count(old) != 1:
                bad_apply.append(mid)
                print('%-7s %s: pattern found %d times - catalogue entry is '
                      'stale' % (mid, prop, src.count(old)))
                shutil.rmtree(d, ignore_errors=True)
                continue
            open(fn, 'w').write(src.replace(old, new))
            rc, oracles, tail = run_check(prop, d,
                                          max(budget, BUDGET.get(mid, 0)))
            status = 'KILLED' if rc == 1 else \
                ('HARNESS-ERROR' if rc == 2 else 'MISSED')
            print('%-7s %s: %s %s' % (mid, prop, status, ','.join(oracles)))
            sys.stdout.flush()
            if rc != 1:
                missed.append(mid)
                if rc == 2:
                    print(tail)
            shutil.rmtree(d, ignore_errors=True)
    finally:
        shutil.rmtree(base, ignore_errors=True)
    print('mutants: %d applied, %d missed %s, %d stale %s'
          % (len(cat) - len(bad_apply), len(missed), missed, len(bad_apply),
             bad_apply))
    return 0 if not missed and not bad_apply else 2
