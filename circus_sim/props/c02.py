"""C02 - stop leaves no survivor and no zombie; stopped stays stopped."""
import copy
import random

from .base import Prop
from ..lifecycle import Episode
from .. import gen


class C02Episode(Episode):
    def setup(self):
        super().setup()
        self.post_setup()

    def socket_event(self, op):
        # a socket event reaches every on-demand watcher
        for wc in self.cfg['watchers']:
            if wc['opts'].get('on_demand'):
                self.stopped_markers.pop(wc.get('marker', wc['name']), None)

    def post_setup(self):
        w = self.world
        self.stopped_markers = {}     # marker -> request idx that stopped it
        self.completions = 0
        self.probe_reqs = []          # (kind, wname, Req, stop Req)
        w.reply_hooks.append(self.on_reply)
        w.kernel.on_spawn = self.on_spawn
        self.name2marker = dict((wc['name'].lower(),
                                 wc.get('marker', wc['name']))
                                for wc in self.cfg['watchers'])
        self.removed = set()
        self.nostop_markers = set()

    # a start-class request reaching the daemon lifts the 'stays stopped' claim
    def op_req(self, i, op):
        if op['cmd'] in ('start', 'restart', 'reload', 'reloadconfig', 'add'):
            orig = op.get('place')
            ep = self

            def lift():
                if op.get('w') is None and (op.get('props') or {}).get('name'):
                    # addressed by a pattern: the watchers it matches
                    for m in ep.markers_of((op['props'] or {})['name']):
                        ep.stopped_markers.pop(m, None)
                elif op.get('w') is None:
                    ep.stopped_markers.clear()
                else:
                    ep.stopped_markers.pop(ep.marker(op['w']), None)
            # lifted when the request is delivered (not when it is armed)
            self._lift = lift
        else:
            self._lift = None
        super().op_req(i, op)

    def place(self, place, fn, tag):
        lift = getattr(self, '_lift', None)
        self._lift = None
        if lift is not None and tag == 'op':
            def both():
                lift()
                fn()
            return super().place(place, both, tag)
        return super().place(place, fn, tag)

    def on_spawn(self, p):
        m = p.marker
        self.accept_for(p)
        if m in self.stopped_markers:
            self.viol('spawn_while_stopped',
                      'worker %d spawned for watcher %s although it was '
                      'stopped by request #%s and no start/restart/reload '
                      'was sent since; spawned from %s'
                      % (p.pid, m, self.stopped_markers[m],
                         self.world.kernel.sender()[:5]),
                      once=p.pid,
                      via=(self.world.kernel.sender() + ['?'])[1])

    START_CLASS = ('start', 'restart', 'reload', 'add', 'reloadconfig')

    def markers_of(self, wname):
        """markers of the watchers a name (or glob pattern) addresses"""
        import fnmatch
        import re
        low = wname.lower()
        m = self.name2marker.get(low)
        if m:
            return [m]
        if any(ch in low for ch in '*?['):
            rx = re.compile(fnmatch.translate(low))
            return [mk for nm, mk in self.name2marker.items()
                    if rx.match(nm)]
        return []

    def started_since(self, r, m):
        """a start-class request for marker m was dispatched after r"""
        for x in self.world.reqs:
            if x.cmd in self.START_CLASS and x.sent_seq is not None and \
                    x.sent_seq > r.sent_seq:
                if x.wname is None or m in self.markers_of(x.wname):
                    return True
        return False

    def targets(self, r):
        """markers addressed by request r"""
        if r.cmd == 'quit':
            return list(self.name2marker.values())
        if r.wname is None:
            if r.cmd in ('stop', 'restart'):
                return list(self.name2marker.values())
            return []
        return self.markers_of(r.wname)

    def on_reply(self, r, ent):
        if r.cmd not in ('stop', 'restart', 'rm', 'quit') or not r.waiting:
            return
        o = ent[5]
        if not isinstance(o, dict) or o.get('status') != 'ok':
            return
        if r.cmd == 'rm' and (r.props or {}).get('nostop'):
            for m in self.targets(r):
                self.nostop_markers.add(m)
                self.removed.add(m)
            return
        w = self.world
        k = w.kernel
        me = k.getpid_value
        self.completions += 1
        self.probes['completed_%s' % r.cmd] += 1
        # workers an *earlier* operation already discarded and SIGKILLed are
        # that operation's business (their zombie is bounded by C04)
        killed_before = set(e['pid'] for e in k.signals
                            if e['sig'] == 9 and e['seq'] < r.disp_seq and
                            e['effect'] in ('will-die', 'died', 'zombie'))
        for m in self.targets(r):
            if m in self.removed and r.cmd != 'rm':
                continue
            for p in k.procs.values():
                if p.pid in killed_before:
                    self.probes['sigkilled_by_earlier_operation'] += 1
                    continue
                if p.orig_parent != me or p.marker != m:
                    continue
                if p.spawn_seq > r.disp_seq:
                    continue      # started later (restart / a later start)
                if p.state != 'reaped':
                    self.viol('survivor_after_%s' % r.cmd,
                              '%s of %s completed (reply ok) but worker %d '
                              'spawned before it is %s (behaviour %s)'
                              % (r.cmd, m, p.pid, p.state, p.beh.label),
                              once=(r.idx, p.pid), state=p.state)
            if r.cmd in ('stop', 'quit', 'rm') and \
                    not self.started_since(r, m) and \
                    not (m in self.ondemand_markers and
                         (self.pending_conn or self.accept_seq > r.disp_seq)):
                # (an un-accepted connection is a socket event that is still
                # to come for an on-demand watcher; so is one that was taken
                # between this request's dispatch and its reply)
                self.stopped_markers[m] = r.idx
            if r.cmd == 'rm':
                self.removed.add(m)
        if r.cmd == 'quit':
            return
        if r.cmd == 'stop':
            # the views must agree at this instant (asked in the next steps)
            for m in self.targets(r):
                name = [n for n, mm in self.name2marker.items() if mm == m][0]
                if m in self.removed:
                    continue
                for kind in ('status', 'numprocesses', 'list'):
                    q = w.send(kind, {'name': name})
                    self.probe_reqs.append((kind, name, q, r))

    def judge_probes(self):
        for kind, name, q, r in self.probe_reqs:
            if self.name2marker.get(name.lower()) in self.ondemand_markers:
                continue       # may be started again by a socket event
            o = q.reply
            if not isinstance(o, dict) or 'errno' in o:
                continue      # e.g. the watcher has been removed meanwhile
            # a start-class request may legitimately have arrived meanwhile
            later_start = any(x.cmd in self.START_CLASS and
                              x.sent_seq is not None and q.disp_seq is not None
                              and r.sent_seq < x.sent_seq < q.disp_seq
                              for x in self.world.reqs)
            if later_start:
                continue
            if kind == 'status' and o.get('status') != 'stopped':
                self.viol('not_stopped_after_stop', 'stop of %s completed but '
                          'status reply is %r' % (name, o.get('status')),
                          once=('s', r.idx, name))
            if kind == 'numprocesses' and o.get('numprocesses') != 0:
                self.viol('processes_after_stop', 'stop of %s completed but '
                          'numprocesses reply is %r' %
                          (name, o.get('numprocesses')),
                          once=('n', r.idx, name))
            if kind == 'list' and o.get('pids') != []:
                self.viol('processes_after_stop', 'stop of %s completed but '
                          'list reply is %r' % (name, o.get('pids')),
                          once=('l', r.idx, name))

    def collect(self):
        try:
            if self.aborted == 'daemon_hung' and self.world is not None:
                # the loop is dead: the stop under way never completes, no
                # later one is ever served
                h = self.world.sim.hung or {}
                self.aborted = None
                self.viol('daemon_dead_inside_stop',
                          'the event loop is dead (%s waits for live pid %s): '
                          'no stop completes any more'
                          % (' <- '.join((h.get('stack') or [])[:5]),
                             h.get('pid')), once='hung')
        finally:
            super().collect()

    def final_gone(self):
        self.judge_probes()
        k = self.world.kernel
        me = k.getpid_value
        quits = [r for r in self.world.reqs if r.cmd == 'quit' and r.accepted]
        if quits:
            # zombies of earlier surplus kills vanish with the daemon process
            # (re-parented to init); only live workers can outlive a quit
            # (workers started by a start-class request that was accepted
            # after the quit are C08's business, not a survivor of the stop)
            qseq = min(r.disp_seq for r in quits)
            left = [(p.pid, p.state) for p in k.procs.values()
                    if p.orig_parent == me and p.alive
                    and p.spawn_seq < qseq
                    and p.marker not in self.nostop_markers]
            if left:
                self.viol('survivor_after_quit', 'the daemon has quit; '
                          'children left: %s' % left, once='quit')

    def final(self):
        self.judge_probes()
        # stopped watchers are still stopped, with nothing alive
        k = self.world.kernel
        for m, ridx in self.stopped_markers.items():
            if m in self.ondemand_markers and self.pending_conn:
                continue
            live = [p.pid for p in k.live_by_marker(m)]
            if live and m not in self.removed:
                self.viol('alive_in_stopped_watcher', 'watcher %s was stopped '
                          'by request #%s, workers %s are alive at the end'
                          % (m, ridx, live), once=m)


class C02(Prop):
    id = 'C02'
    level = 'fault_enumeration'
    rule = ('one case = one seeded daemon life with stop / restart / rm / quit '
            'sent waiting to watchers with obedient, slow, stubborn and '
            'self-exiting workers, worker deaths placed at kernel-call '
            'boundaries / steps / times inside the stop sequence, then '
            'periodic checks, incr/decr/set/signal/kill and read-only requests '
            'against the stopped watcher. systematic part: for seeded base '
            'scenarios the stop-class request is first run fault-free to count '
            'its K kernel calls, then re-run with a worker death (exit or '
            'SIGKILL) before every boundary k<=K for every worker. '
            'non-trivial = a fault fired while an operation was in flight; '
            'distinct = (event kind, abstract daemon state) sequence hash')
    chunk = 100
    enum_hard_budget = {'quick': 60, 'thorough': 3000}
    REQS = ['stop', 'restart', 'rm', 'quit', 'incr', 'decr', 'set', 'signal',
            'kill', 'status', 'list', 'start', 'reload']
    WEIGHTS = [6, 4, 1, 0.4, 3, 2, 2, 2, 2, 1, 1, 1.5, 1]

    def gen(self, rng, tier, seed):
        cfg = gen.gen_base_cfg(rng, seed, kids=(rng.random() < 0.2),
                               stop_children_p=0.2, max_age_p=0.1,
                               stop_signals=(15, 15, 15, 2, 1, 10),
                               respawn=rng.choice([True, True, True, False]),
                               kinds=('obedient', 'slow', 'stubborn',
                                      'selfexit', 'selective'))
        if rng.random() < 0.06:
            # an operation that ends with an error in the middle of its work
            # (signalling a worker fails with EPERM): the next stop finishes
            # the job
            s0 = rng.randrange(1, 8)
            cfg['signal_fail'] = {str(s0): 1}
            if rng.random() < 0.4:
                # ... it is the first SIGKILL that is refused (a worker that
                # sits out the grace period, and whoever waits for its end)
                cfg['signal_fail'] = {'-9': 1}
        if rng.random() < 0.15:
            # captured output: pipes and redirector registrations whose
            # descriptor numbers are reused by the next worker, possibly of
            # another watcher
            for wc in cfg['watchers']:
                if rng.random() < 0.8:
                    wc['stream_objects'] = True
        n = rng.choice([2, 3, 4, 6, 8]) if tier == 'quick' else \
            rng.choice([3, 5, 8, 12, 16])
        ops = gen.gen_history(rng, cfg, n, self.REQS, self.WEIGHTS,
                              second_req_kinds=['incr', 'decr', 'kill',
                                                'signal', 'status', 'stop'])
        if cfg.get('signal_fail') == {'-9': 1}:
            # ... met first by a kill request of a watcher whose workers
            # ignore the stop signal, with a stop of the same watcher arriving
            # during the grace period
            wc0 = cfg['watchers'][0]
            wc0['mix'] = [{'p': 1, 'label': 'stubborn', 'ignore': 'all',
                           'latency': [0.001]}]
            gt = rng.choice([0.2, 0.5])
            ops[0:0] = [
                {'op': 'req', 'cmd': 'kill', 'w': 0, 'waiting': True,
                 'props': {'signum': 15, 'graceful_timeout': gt},
                 'place': 'now'},
                {'op': 'req', 'cmd': rng.choice(['stop', 'stop', 'restart']),
                 'w': 0, 'props': {}, 'waiting': True,
                 'place': rng.choice([{'calls': 10}, {'dt': 0.1},
                                      {'steps': 3}])},
                {'op': 'wait', 'kind': 'replies'}]
        if cfg.get('signal_fail'):
            for op in ops:
                if op['op'] == 'req' and op['cmd'] in ('quit', 'rm'):
                    # (not into a shutdown, nor into a removal: half of
                    # either cannot be taken back)
                    op['cmd'] = 'stop'
                    op['props'] = {}
        nw_ = len(cfg['watchers'])
        if nw_ >= 3:
            for op in ops:
                if op['op'] == 'req' and op['cmd'] in ('restart', 'stop',
                                                       'start') and \
                        op.get('w') is not None and rng.random() < 0.15:
                    # several watchers addressed by a pattern - not all
                    keep = rng.randrange(nw_)
                    pat = 'w[%s]' % ''.join(str(i) for i in range(nw_)
                                            if i != keep)
                    op['w'] = None
                    op.pop('case', None)
                    op['props'] = {'name': pat}
        if rng.random() < 0.2:
            # an on-demand watcher: started by a socket event, outside the
            # command lock (the statement's exception clause)
            cfg['sockets'] = [{'name': 'ondemand'}]
            wc = rng.choice(cfg['watchers'])
            wc['opts'].update({'on_demand': True, 'use_sockets': True,
                               'numprocesses': rng.choice([2, 3]),
                               'warmup_delay': rng.choice([0.3, 1.7]),
                               'singleton': False})
            wi = cfg['watchers'].index(wc)
            for other in cfg['watchers']:
                if other is not wc and rng.random() < 0.5:
                    # an ordinary watcher that uses the managed sockets too:
                    # a socket event is none of its business
                    other['opts']['use_sockets'] = True
            # keep to the part of on-demand behaviour the statement speaks
            # about: a watcher that loses a worker while a socket event is
            # pending is a different story (see DESIGN 10.6)
            wc['mix'] = [m for m in wc['mix']
                         if m.get('label') in ('obedient', 'slow',
                                               'stubborn')] or \
                [{'p': 1, 'label': 'obedient'}]
            ops = [o for o in ops if not (
                o.get('op') == 'die' and o['w'] % len(cfg['watchers']) == wi)
                and not (o.get('op') == 'req' and o.get('w') in (wi, None)
                         and o['cmd'] in ('kill', 'signal', 'incr', 'decr',
                                          'set', 'reload', 'restart',
                                          'start', 'rm', 'quit'))]
            extra = []
            for _ in range(rng.choice([1, 2, 3])):
                extra.append({'op': 'connect', 's': 0,
                              'place': gen.gen_place(rng, False)})
                extra.append({'op': 'wait', 'kind': 'time',
                              'n': rng.choice([0.1, 0.5, 1.1, 2.0])})
                extra.append({'op': 'req', 'cmd': 'stop', 'w': wi,
                              'props': {}, 'waiting': True,
                              'place': rng.choice([
                                  'now', {'dt': rng.choice([0.05, 0.2, 0.4,
                                                            1.0])}])})
                extra.append({'op': 'quiet', 'checks': rng.choice([1, 2])})
            pos = rng.randrange(len(ops) + 1)
            ops[pos:pos] = extra
        if rng.random() < 0.2:
            # hooks around signals, stops and reaps that veto, fail or raise:
            # a stop still has to leave nothing behind
            for wc in cfg['watchers']:
                if rng.random() < 0.7:
                    wc['hooks'] = gen.gen_hooks(
                        rng, names=('before_signal', 'after_signal',
                                    'before_stop', 'after_stop',
                                    'before_reap', 'after_reap'),
                        p=0.4, bad_p=0.5)
            if rng.random() < 0.5:
                # a worker removed by an earlier operation (decr, set) and a
                # stop afterwards: whatever the hooks answered, nothing of
                # the watcher may be left running
                wi = rng.randrange(len(cfg['watchers']))
                if rng.random() < 0.6:
                    # the hard case: nobody obeys and the hook vetoes
                    wc = cfg['watchers'][wi]
                    wc['mix'] = [m for m in wc['mix'] if m.get('label') in
                                 ('stubborn', 'selective')] or \
                        [{'p': 1, 'label': 'stubborn', 'ignore': 'all'}]
                    wc.setdefault('hooks', {})['before_signal'] = {
                        'script': [rng.choice(['false', 'false', 'raise'])
                                   for _ in range(12)], 'ignore': False}
                ops.extend([
                    {'op': 'req', 'cmd': rng.choice(['decr', 'set']),
                     'w': wi, 'props': {}, 'waiting': True, 'place': 'now'},
                    {'op': 'quiet', 'checks': 1},
                    {'op': 'req', 'cmd': 'stop', 'w': wi, 'props': {},
                     'waiting': True, 'place': 'now'},
                    {'op': 'quiet', 'checks': 1}])
                if ops[-4]['cmd'] == 'set':
                    ops[-4]['props'] = {'options': {'numprocesses': 0}}
                else:
                    ops[-4]['props'] = {'nb': rng.choice([1, 2, 5])}
        for op in ops:
            if op['op'] == 'req' and op['cmd'] == 'set' and \
                    rng.random() < 0.5:
                # options whose change asks for a graceful reload of the
                # workers (action 1 of Watcher.set_opt): on a stopped watcher
                # that must not start anything either
                extra = rng.choice([{'env': {'X': '1'}},
                                    {'max_age_variance': 3},
                                    {'working_dir': '/'}, {'shell': False},
                                    {'env': {'Y': '2'}, 'warmup_delay': 0}])
                if rng.random() < 0.5:
                    op['props']['options'] = dict(extra)
                else:
                    op['props']['options'].update(extra)
            if op['op'] == 'req' and op['cmd'] in ('stop', 'restart', 'rm',
                                                   'quit'):
                op['waiting'] = True
            if op['op'] == 'req' and op['cmd'] == 'rm' and rng.random() < 0.2:
                op['props']['nostop'] = True
        return {'cfg': cfg, 'ops': ops}

    # ------------------------------------------------ boundary enumeration
    def enum_cases(self, tier, master):
        nb = 6 if tier == 'quick' else 150
        return [{'sweep_base': i, 'master': master} for i in range(nb)]

    def base_case(self, i, master):
        seed = (master * 1000003 + i) & 0xffffffffffff
        rng = random.Random('c02-sweep/%d/%d' % (master, i))
        cfg = gen.gen_base_cfg(rng, seed, nwatch=(1, 1, 2),
                               numproc=(1, 2, 2, 3),
                               kinds=('obedient', 'slow', 'stubborn'),
                               singleton_p=0.0, grace=[0, 0.05, 0.25, 1.0])
        cmd = rng.choice(['stop', 'stop', 'restart', 'rm', 'quit'])
        op = {'op': 'req', 'cmd': cmd, 'w': 0, 'props': {}, 'waiting': True,
              'place': 'now', 'sync': True}
        if cmd == 'quit':
            op['w'] = None
        return {'cfg': cfg, 'ops': [op, {'op': 'quiet', 'checks': 1}]}

    def run(self, case):
        if 'sweep_base' in case:
            return self.run_sweep(case)
        ep = C02Episode(case)
        ep.run()
        return self.result(ep)

    def run_sweep(self, case):
        base = self.base_case(case['sweep_base'], case['master'])
        ep = C02Episode(base)
        ep.run()
        res = self.result(ep, nontrivial=False)
        r = ep.op_reqs.get(0)
        multi = []
        if r is None or r.disp_seq is None or not r.replies:
            res['multi'] = multi
            return res
        K = max(1, (r.done_call or r.disp_call_end) - r.sent_call)
        nworkers = max(1, base['cfg']['watchers'][0]['opts']['numprocesses'])
        for k in range(1, min(K, 120) + 1):
            for wj in range(nworkers):
                for how in ('exit', 'kill'):
                    c = copy.deepcopy(base)
                    d = {'op': 'die', 'w': 0, 'j': wj, 'how': how,
                         'place': {'calls': k}}
                    if how == 'exit':
                        d['arg'] = 3
                    c['ops'].insert(0, d)
                    e2 = C02Episode(c)
                    e2.run()
                    rr = self.result(e2, nontrivial=True)
                    for v in rr['violations']:
                        v['case'] = c
                    multi.append(rr)
        res['multi'] = multi
        return res


PROP = C02()
