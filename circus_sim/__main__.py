"""python -m circus_sim check|replay|selftest ...

The launcher pins PYTHONHASHSEED=0 (Arbiter.reload_from_config iterates sets of
strings) by re-executing itself once."""
import os
import sys


def _pin_hash_seed():
    want = os.environ.get('VERIF_HASHSEED', '0')
    if os.environ.get('PYTHONHASHSEED') != want:
        env = dict(os.environ)
        env['PYTHONHASHSEED'] = want
        os.execve(sys.executable, [sys.executable, '-m', 'circus_sim'] +
                  sys.argv[1:], env)


def main(argv):
    import argparse
    ap = argparse.ArgumentParser(prog='circus_sim')
    sub = ap.add_subparsers(dest='cmd')
    c = sub.add_parser('check')
    c.add_argument('--property', required=True)
    c.add_argument('--tier', default=os.environ.get('VERIF_TIER', 'quick'))
    c.add_argument('--budget', type=float)
    c.add_argument('--count', type=int)
    c.add_argument('--jobs', type=int)
    r = sub.add_parser('replay')
    r.add_argument('path')
    s = sub.add_parser('selftest')
    s.add_argument('what')
    s.add_argument('rest', nargs='*')
    o = sub.add_parser('one')
    o.add_argument('--property', required=True)
    o.add_argument('--seed', type=int, required=True)
    o.add_argument('--tier', default='quick')
    args = ap.parse_args(argv)
    if args.cmd == 'check':
        from . import runner
        return runner.check(args.property, args.tier, budget=args.budget,
                            count=args.count, jobs=args.jobs)
    if args.cmd == 'replay':
        from . import runner
        return runner.replay(args.path)
    if args.cmd == 'one':
        import json
        import random
        from . import runner
        prop = runner.get_prop(args.property)
        case = prop.gen(random.Random(args.seed), args.tier, args.seed)
        res = prop.run(case)
        print(json.dumps({'case': case, 'res': res}, indent=1, default=str))
        return 1 if res['violations'] else 0
    if args.cmd == 'selftest':
        from . import selftest
        return selftest.main(args.what, args.rest)
    ap.print_help()
    return 2


if __name__ == '__main__':
    _pin_hash_seed()
    sys.exit(main(sys.argv[1:]))
