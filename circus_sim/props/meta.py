"""Manifest metadata per property (level, assurance text, trusted base)."""
ORDER = ['C%02d' % i for i in range(1, 21)]

_NOTE = ('trusted base: the simulator itself (SimLoop, SimKernel, fake ZeroMQ) '
         'and its kernel model, which selftest conformance compares call by '
         'call with real psutil/os.waitpid; sampling, not enumeration; code '
         'below the seams (real fork/exec, preexec_fn, libzmq) is not run')
_TECH = 'deterministic simulation with fault injection'

META = {
    'C09': {
        'level': 'exploration',
        'text': 'seeded random daemon lives (real Arbiter/Watcher/Controller '
                'on the simulator) with worker deaths of every exit status / '
                'terminating signal placed at kernel-call boundaries, loop '
                'steps and virtual times relative to periodic checks and '
                'incr/decr/set/reload/restart/stop requests; the captured PUB '
                'stream is checked against the kernel process table at every '
                'quiescent point and over the whole history',
        'note': _NOTE, 'technique': _TECH + ' (history check of the event '
                'stream against the simulated process table)'},
}
